#!/usr/bin/env python3
"""Regenerates /verif/MANIFEST.json from the table below (claimed checks + not_applicable)."""
import json, os

VERIF = os.path.dirname(os.path.dirname(os.path.abspath(__file__)))

NA = {
    "C01": "pure function of its input (encode/decode round trip): no schedule, clock, fault or interleaving for a simulator to sample; see DESIGN.md section 7",
    "C11": "reply builders are pure functions of one envelope: no timing, concurrency or fault dimension; see DESIGN.md section 7",
}

# id -> (level, technique, level text, note)
CLAIMED = {
    "C03": ("exploration", "seeded deterministic simulation: scripted raw clients vs real ServerChannel/Server over simulated tcp/ws/in-process links; history oracle pairing every established observation with its authentication and registration",
            "Seeded search over (server configuration lattice x callback outcomes x scripted client words x link faults x schedules). Every way the server side can be seen established (wire envelope, EstablishSession result, State(), Established callback) must be preceded by an authentication callback for exactly what the peer presented under an offered scheme returning a known role, then a registration whose node is the one announced. Sampling: evidence, not proof.",
            "trusts the simulator (simrt/simnet/synctest) and that scripted words up to 8 steps with the round-trip templates reach the relevant server branches; callbacks always return normally"),
    "C07": ("exploration", "seeded deterministic simulation + refinement of the recorded handshake history against an executable reference model of the server side of the session protocol",
            "Same plan space as C03. The recorded history of each connection (client inputs, server session envelopes, callback invocations, visible State()) is walked through a reference model written from the protocol text: per input it says which emissions are acceptable (with latitude where the text leaves it), and invariants (single id, sender node, reason on failed, nothing after terminal, close after failed, monotone state) are checked on every envelope.",
            "the reference model encodes my reading of README/property text; where the text is silent (undecodable input, callback errors, empty capability intersection) both behaviours are accepted"),
    "C12": ("fault_enumeration", "seeded deterministic simulation with systematic fault enumeration on a simulated net.Conn: every split point, pairs of splits, every cut offset x FIN/RST, every short-write length with a socket-deadline timeout, coalescing boundaries, stalls around the 5 s poll; then random fault plans, plain and TLS",
            "Real tcpTransport on both ends of a faulty simulated link. Oracle: the received sequence is item-wise equal to a prefix of what was sent (nothing corrupted, duplicated, reordered or fabricated); with no cut and no receive deadline every send that returned nil is received; receivers that call Receive again after an expired receive context and senders that go on after a Send whose context ended are part of the plan space, as are envelope-shaped JSON payloads and a stall-past-the-receive-deadline sweep over every offset. The systematic families are exhaustive for the stated small stream in the thorough tier.",
            "simnet honours the net.Conn contract (short write + timeout like a real socket), not a kernel's TCP; TLS runs real crypto/tls"),
    "C16": ("exploration", "seeded deterministic simulation: raw writer feeding a real TCP transport with exact-size envelopes swept around the read-limit boundaries under random fragmentation/coalescing; per-Receive byte accounting on the simulated connection",
            "Per Receive call the bytes taken from the connection (counted by simnet) must not exceed the limit; envelopes above twice the limit must be rejected wherever they occur; envelopes of at most limit-2 bytes must be accepted after any valid preceding traffic; sizes in between may go either way; slow writers against polling receivers, receive contexts ending the instant an envelope becomes complete, and transports with a TraceWriter are part of the plan space.",
            "limits 256..65536 in quick, plus the 8 MiB default in thorough; behaviour after an undecodable frame is not asserted"),
    "C04": ("exploration", "seeded deterministic simulation: real Server + real ClientChannel over simulated tcp/tcp+tls/ws/wss/in-process links, concurrent sender tasks in both directions, slow consumers, zero-size buffers, benign link faults; multiset/order/content oracle over the quiescent history",
            "For sessions that stay established: per direction the delivered envelopes equal the successfully sent ones as multisets, each exactly once, canonical content equal, per (sender task, kind) in send order, nothing delivered that was not sent; a session that nobody ended and whose link was never cut is still established at the end (benign faults incl. stalls longer than the 5 s I/O poll behind small send buffers, handler delays up to 6 s, a late response to an abandoned ProcessCommand travelling with the traffic).",
            "envelopes come from the generator's safe value space (C01 is not claimed); wss links get no bounded send buffer (library-managed TLS, see DESIGN limits)"),
    "C10": ("exploration", "seeded deterministic simulation: scripted cooperative and negotiation-skipping clients vs real servers whose encryption list excludes none, on TLS-capable tcp and wss; cleartext/TLS tagging of every frame and callback; control group with the premise false",
            "With the premise true, no authentication request, no authentication callback and no establishment may be observed while the connection is unencrypted; the control group (premise false) must stay silent.",
            "cleartext vs TLS is decided by whether the scripted peer had completed the TLS handshake when the frame arrived, and by Transport.Encryption() at callback time"),
    "C15": ("exploration", "seeded deterministic simulation on the fake clock: one context-taking operation per run against a silent or non-reading peer, deadline or cancellation at chosen instants; latency after the context's end measured in simulated time",
            "Each operation must return; if its context ended first, within 1 s (deadline) or 5 s (cancellation) of that end; still blocked 70 s later is reported as blocked indefinitely; server-side FinishSession/FailSession towards a client that consumes nothing and TCP transports with a TraceWriter are among the operations. Code runs in zero simulated time, so the measured latency is exactly polling/missed wake-ups.",
            "no bounded send buffer on wss (library-managed TLS cannot park a writer in a bubble), so 'peer not reading' on wss is not explored"),
    "C18": ("exploration", "seeded deterministic simulation: real Server with 1-3 mixed listeners and 0-5 real clients plus failing raw clients; Server.Close at any simulated instant and scheduling point; callback/ordering/census oracles; goroutine panics of lime code are violations",
            "No lime goroutine panics; ListenAndServe returns ErrServerClosed; no listener accepts afterwards; every established client observes finished; Established exactly once and only for established sessions, before any handler; Finished exactly once afterwards for the same set; no serving task left 30 s later; clients that reset their established connection, and a second serve/close cycle of the same Server, are part of the plan space.",
            "select poll order at the queue selects is a tape decision, so 'both arms ready' is explored on purpose"),
    "C02": ("exploration", "seeded deterministic simulation: hostile bytes as a peer/link fault (structurally mutated valid encodings at any nesting level, truncation, bit flips, glued frames, inserted bytes) delivered under random fragmentation to real TCP/websocket transports and to established sessions of a real Server and a real ClientChannel; goroutine panics of lime code are violations",
            "No lime goroutine may panic (the decoder runs on unrecovered receiver goroutines, so a panic is a process crash); every accepted envelope re-encodes, decodes again and re-encodes to the same bytes; after hostile input on one session a fresh client can still establish. Byte-level coverage-guided fuzzing of the typed decoders is a pure-input technique and is not claimed.",
            "mutations are drawn from a seeded generator over the rich envelope generator and session templates; depth of byte-level exploration is that of random mutation, not of a coverage-guided fuzzer"),
    "C05": ("exploration", "seeded deterministic simulation: concurrent ProcessCommand callers with colliding ids and deadlines vs a scripted responder (now/late/never/twice/reordered/other-id/unsolicited), every request and response tagged; interval reasoning over the recorded history stamped with scheduler step numbers",
            "A call returns only its own id's response, or its context's error only after the context ended, or 'in use' only with an overlapping same-id call; each response is consumed at most once; unmatched responses surface on the stream; a timely answer to a call without competitors is returned by it; no two accepted calls with one id are pending at one moment; also over the in-process transport with a server that stops reading (requests that cannot even be sent). porcupine was considered and not used (one long blocking call, not invoke/return pairs on a shared object).",
            "response delays are allowed to coincide exactly with context deadlines (that is how the id-reuse race was found)"),
    "C06": ("exploration", "seeded deterministic simulation: application tasks calling the send operations from before the handshake until after the end, on a real ServerChannel vs scripted client and a real ClientChannel vs scripted server; wire-order oracle on the peer's frames plus before/after state observation per call",
            "A send whose whole call lay outside the established state fails and emits nothing; data frames appear on the wire only between the established envelope and the endpoint's terminal session envelope; no garbled frame; a data envelope injected into the handshake aborts it and is never delivered; after the server's terminal envelope has had time to arrive client sends fail.",
            "state is observed through State() immediately before and after each call; only calls whose whole duration is outside 'established' are judged strictly"),
    "C08": ("exploration", "seeded deterministic simulation: real ClientChannel.EstablishSession against scripted servers answering one step per client envelope (any state incl. regressions, id variants, option/scheme lists, round trips, data, garbage, half frames, FIN/RST, silence) and unsolicited frames after establishment; goroutine panics are violations",
            "EstablishSession returns; an established report only when the server's last session envelope was 'established', with exactly its id/to/from; every later client envelope echoes the latest server id; credentials only after an authentication request; the client closes after a consumed finished/failed.",
            "selectors and authenticators used by the harness always return normally (the stock default selector that indexes an empty list is outside the property's premise)"),
    "C09": ("exploration", "seeded deterministic simulation: one real server with mixed listeners, several clients one after another (real ClientChannel with each selector, cooperative and non-cooperative scripted clients), fragmentation in both directions around the confirmation / TLS hello boundary; wire taps parsed into JSON frames + TLS remainder",
            "Offer = configured intersect supported (as sets); confirmation only of a pair from the offer, anything else failed and never established; after a TLS confirmation only TLS records in either direction and no readable session data; the confirmed upgrade completes under benign faults.",
            "for ws/wss/in-process the frames are those a scripted client sees; 'supported' is taken from the protocol facts per transport kind (a plain TCP listener advertises tls: both readings accepted)"),
    "C13": ("exploration", "seeded deterministic simulation: established sessions over every transport ended by client FinishSession / server FinishSession / server FailSession / Client.Close / Server.Close at a chosen instant with traffic in flight and slow consumers; bounded-liveness and task-census oracles",
            "The terminating call returns and disconnects the initiator; the peer reaches the terminal state; receiver-done and streams close and consumers return within 30 s; Finished fires once; after both sides closed no session goroutine (by spawn site) and no open connection end (incl. earlier failed attempts) remains; a send on the ended session is refused, not left blocked; no panic. One recorded known finding (Server.Close's 1 s finish budget vs a slow in-process consumer) is reported as KNOWN-FINDING.",
            "census exemptions: listener-level goroutines of a still running server are not session goroutines"),
    "C14": ("exploration", "seeded deterministic simulation: full ServerBuilder server vs 1-4 concurrent scripted clients (cooperative, vanishing by FIN/RST at a step or exactly inside the authenticate/register callback, random handshake words), callback errors; release oracle per connection + session-goroutine census",
            "A connection that did not establish (client never saw 'established' and the established envelope never reached the socket) is closed by the server within 90 s of the client's last complete input, fires no callback, has its server end closed, and leaves no session goroutine.",
            "a client that is silent, or whose last bytes are an incomplete JSON value, is legitimately waited for"),
    "C17": ("exploration", "seeded deterministic simulation: one server with mixed listeners and 2-6 concurrent real clients, tagged traffic, handlers recording the context's session id / nodes and replying through the Sender they were handed",
            "Handler context values equal those of the session the envelope was sent on; replies reach the originating client and nobody else; announced ids pairwise distinct and known to the server; on a fault-free network every client is served; clients that reset their connection mid-traffic and request/response exchanges whose command ids are shared by all clients are part of the workload.",
            "sessions are identified by the id announced to the client and the node returned by the register callback"),
    "C19": ("exploration", "seeded deterministic simulation: real high-level Client (listener goroutine, reconnect loop, back-off on the fake clock) vs real Server; 1-3 rounds of unrequested loss (server finish/fail/close, FIN, RST, half-close, undecodable bytes, non-envelope JSON, oversized envelope, server restart) at idle / mid-send / mid-push / mid-re-establishment; bounded-liveness oracle after faults stop; busy loops detected from scheduler statistics",
            "Once faults stop a SendMessage succeeds within 120 s on a session the server serves; a message pushed on the client's current session reaches the registered handler; a send 1 s or more after the loss that returns nil was received; no busy loop (tens of thousands of scheduler steps at one simulated instant); no panic.",
            "sends racing with the loss itself may be accepted by a socket whose peer is gone; only later probes are judged"),
    "C20": ("exploration", "seeded deterministic simulation: per-run generated handler tables (0-4 handlers per kind, predicate family, error at k-th call) on the server or on a client-side EnvelopeMux, inbound envelopes of all four kinds through the real receiver/stream/select pipeline",
            "Exactly one invocation, of the earliest-registered matching handler, envelope unaltered; none when nothing matches and later envelopes still dispatched; nothing after a handler error; the server then finishes the session / ListenClient returns the error; handlers take 0-150 ms, sessions may be ended while handlers run, and the late response to an abandoned command is an inbound envelope like any other.",
            "predicates and handlers are harness functions; the dispatch itself is real"),
}

TODO = []

# appended to every technique: what is varied per run beside the plan and the schedule
SWARM = ("; per-run swarm from the tape: scheduling strategy (sequential/random/sticky/PCT), TLS version of the clients (1.3 or <=1.2), listener ConnBuffer, "
         "websocket compression, how the server certificate is supplied, TLS configuration on plain websocket dials, seeded cryptographic randomness")
EXTRA = {
    "C02": "; string-spelling mutations; structural comparison of the accepted envelope with what its encoding decodes to",
    "C03": "; offered = announced on the wire; deaf in-process clients with short queues",
    "C04": "; responses sent at the instant the abandoned command's context expires",
    "C05": "; a responder that ends the session right behind its answer",
    "C06": "; write-call entry times on the simulated socket vs the channel's own report of the end; a peer breaking off mid-envelope; a data envelope in front of the TLS hello",
    "C08": "; the scripted server switches to TLS behind its confirmation; later session envelopes after establishment",
    "C09": "; client role: a real ClientChannel against a scripted server that offers, confirms and switches, with shaped TLS flights; real websocket clients",
    "C12": "; sender closing right behind its last Send; a receiver that talks back; wire timing of envelopes whose Send failed",
    "C13": "; a high-level Client as observer of server-initiated ends",
    "C14": "; chattering refused clients; in-process queue sizes; bounded Close of the client's own end",
    "C15": "; a dripping peer; the measured send as the first blocking write",
    "C16": "; well-formed non-envelopes in the stream",
    "C17": "; broadcast of one envelope object; pooled clients with equal candidates; an intruder presenting a live session id",
    "C18": "; half-closing scripted clients; a second life of the same Server",
    "C19": "; a scripted-server variant (handshakes answered with finished/failed/nothing for a while)",
    "C20": "; AutoReplyPings behind the generated table",
}


def main():
    checks = []
    for pid in sorted(CLAIMED):
        level, tech, text, note = CLAIMED[pid]
        checks.append({
            "property_id": pid,
            "quick_cmd": "bin/check %s quick" % pid,
            "thorough_cmd": "bin/check %s thorough" % pid,
            "evidence_file": "/verif/evidence/%s.json" % pid,
            "replay_cmd_template": "bin/check %s quick --replay {path}" % pid,
            "engine": "simrt",
            "level_claimed": {"category": level, "text": text, "design_ref": "DESIGN.md section 6 (%s)" % pid},
            "level_note": note,
            "technique": tech + SWARM + EXTRA.get(pid, ""),
        })
    na = [{"property_id": k, "reason": v} for k, v in sorted(NA.items())]
    for pid in TODO:
        if pid not in CLAIMED:
            na.append({"property_id": pid, "reason": "check not built yet (framework under construction; see DESIGN.md section 6 for the planned scenario)"})
    na.sort(key=lambda x: x["property_id"])
    m = {
        "version": 1,
        "setup_cmd": "cd /verif/simlib && GOFLAGS=-mod=mod GOPROXY=off GOSUMDB=off GOTOOLCHAIN=local go1.26.8 build -o /verif/bin/instrument ./cmd/instrument && cd /verif && bin/check --warm",
        "hooks": {
            "guard": "verif",
            "enable": "no hook is committed in /repo: every check copies /repo's working tree to a scratch directory, rewrites the copy with /verif/simlib/cmd/instrument (go/ast: yields, simulated sync/net types) and builds it with -tags verif",
            "baseline_off_cmd": "cd /repo && GOFLAGS=-mod=mod GOPROXY=off GOSUMDB=off go test -vet=off -count=1 ./...",
            "source_commits": [],
            "add_only": True,
        },
        "engines": [{
            "name": "simrt",
            "path": "/verif/simlib",
            "serves_properties": sorted(CLAIMED),
            "kind_free_text": "deterministic simulator for Go: tape-driven task scheduler (simrt) inside testing/synctest bubbles (fake clock, quiescence), in-memory fault-injecting network (simnet), go/ast instrumenter that routes every go/select/channel/mutex/net operation of package lime through them; plan+tape shrinking and replay files",
        }],
        "checks": checks,
        "not_applicable": na,
        "notes": "Deterministic simulation with fault injection; see DESIGN.md. Fixes of genuine defects are 'fix:' commits in /repo and are listed in known_findings.json.",
    }
    json.dump(m, open(os.path.join(VERIF, "MANIFEST.json"), "w"), indent=1)
    print("MANIFEST.json: %d checks, %d not applicable" % (len(checks), len(na)))


if __name__ == "__main__":
    main()
