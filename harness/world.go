package harness

import (
	"bytes"
	"crypto/ed25519"
	"crypto/rand"
	"crypto/tls"
	"crypto/x509"
	"crypto/x509/pkix"
	"encoding/json"
	"fmt"
	lime "github.com/takenet/lime-go"
	"hash/fnv"
	"log"
	"math/big"
	mrand "math/rand/v2"
	"net"
	"sort"
	"strings"
	"sync"
	"testing"
	"testing/cryptotest"
	"time"

	"github.com/google/uuid"
	"verifsim/simnet"
	"verifsim/simrt"
)

// Violation is one oracle failure.
type Violation struct {
	Rule   string `json:"rule"`   // e.g. C12.corrupted-envelope
	Sig    string `json:"sig"`    // stable signature of the failing input / call site (known-findings key)
	Detail string `json:"detail"` // human-readable specifics
	Step   int    `json:"step"`
	SimMs  int64  `json:"sim_ms"`
}

// World is what a scenario sees of one simulated run.
type World struct {
	T      *simrt.Tape
	Net    *simnet.Network
	mu     sync.Mutex
	viol   []Violation
	Armed  bool           // the property's precondition was reached in this run
	Counts map[string]int // scenario-level counters (fault kinds fired, probes)
	Trace  []string       // scenario-level trace kept for samples
	Tier   string
	logbuf bytes.Buffer
	seq    int
	hooks  []func()
	// OnlyRules, when set, keeps only the violations whose rule starts with it (a scenario of one
	// property reusing the machinery of another one's)
	OnlyRules string
}

// AfterEachStep registers an invariant hook that runs on the scheduler goroutine between
// scheduler steps (all tasks parked). The hook may call accessors of the system under test;
// if a lock it needs is held by a parked task the observation is skipped for that step.
func (w *World) AfterEachStep(f func()) { w.hooks = append(w.hooks, f) }

// Violate records an oracle failure.
func (w *World) Violate(rule, sig, format string, args ...interface{}) {
	if w.OnlyRules != "" && !strings.HasPrefix(rule, w.OnlyRules) {
		return
	}
	if simrt.Stopping() {
		// the run is being torn down: leftover oracle code sees a world that is being dismantled
		return
	}
	w.mu.Lock()
	defer w.mu.Unlock()
	d := fmt.Sprintf(format, args...)
	if len(d) > 1500 {
		d = d[:1500] + "..."
	}
	for _, v := range w.viol {
		if v.Rule == rule && v.Sig == sig {
			return
		}
	}
	w.viol = append(w.viol, Violation{Rule: rule, Sig: sig, Detail: d, Step: simrt.Step(), SimMs: int64(simrt.Now() / time.Millisecond)})
	simrt.Note("VIOLATION %s %s", rule, sig)
}

// Violated reports whether an oracle failure has been recorded in this run.
func (w *World) Violated() bool {
	w.mu.Lock()
	defer w.mu.Unlock()
	return len(w.viol) > 0
}

// Count bumps a scenario counter.
func (w *World) Count(k string) {
	w.mu.Lock()
	w.Counts[k]++
	w.mu.Unlock()
}

// Tracef appends to the scenario trace (bounded).
func (w *World) Tracef(format string, args ...interface{}) {
	w.mu.Lock()
	if len(w.Trace) < 80 {
		w.Trace = append(w.Trace, fmt.Sprintf("t=%v ", simrt.Now())+fmt.Sprintf(format, args...))
	}
	w.mu.Unlock()
	simrt.Note(format, args...)
}

var processSeq int

// ProcUniq returns a number unique within this worker process (never logged): in-process
// listener addresses must not collide with leftovers of earlier runs in lime's global table.
func ProcUniq() int {
	processSeq++
	return processSeq
}

// Uniq returns a small unique number for this run.
func (w *World) Uniq() int {
	w.mu.Lock()
	defer w.mu.Unlock()
	w.seq++
	return w.seq
}

// Eventually polls cond every 50 ms of simulated time until it holds or within has passed.
func (w *World) Eventually(within time.Duration, cond func() bool) bool {
	deadline := time.Now().Add(within)
	for {
		if cond() {
			return true
		}
		if !time.Now().Before(deadline) {
			return false
		}
		time.Sleep(50 * time.Millisecond)
	}
}

// Bounded runs f in a task of its own and waits for it for at most within (simulated time).
// Scenarios use it for calls that are not the subject of a timing rule but could block for
// ever (clean-up mostly): a run whose main task hangs ends on the simulated-time budget instead
// of at its end, which says less. It returns false when f has not returned in time (f is left
// behind and goes away with the run); what is counted under "blocked: <what>".
func (w *World) Bounded(what string, within time.Duration, f func()) bool {
	done := NewFlag()
	go func() {
		defer done.Set()
		f()
	}()
	if done.WaitFor(within) {
		return true
	}
	w.Count("blocked: " + what)
	return false
}

// LinkOfLocal returns the simulated link whose dialling end has the given local address (nil for
// transports that do not run over the simulated network).
func (w *World) LinkOfLocal(local net.Addr) *simnet.Link {
	if local == nil {
		return nil
	}
	for i := w.Net.LinkCount() - 1; i >= 0; i-- {
		if lk := w.Net.GetLink(i); lk != nil && lk.A.LocalAddr().String() == local.String() {
			return lk
		}
	}
	return nil
}

// Flag is a one-shot event with a value, safe for tasks.
type Flag struct {
	mu   sync.Mutex
	set  bool
	at   time.Duration
	step int
	ch   chan struct{}
}

func NewFlag() *Flag { return &Flag{ch: make(chan struct{})} }

func (f *Flag) Set() {
	f.mu.Lock()
	if !f.set {
		f.set = true
		f.at = simrt.Now()
		f.step = simrt.Step()
		close(f.ch)
	}
	f.mu.Unlock()
}

func (f *Flag) IsSet() bool {
	f.mu.Lock()
	defer f.mu.Unlock()
	return f.set
}

// At returns the simulated time at which the flag was set.
func (f *Flag) At() time.Duration {
	f.mu.Lock()
	defer f.mu.Unlock()
	return f.at
}

func (f *Flag) C() <-chan struct{} { return f.ch }

// WaitFor waits until the flag is set or d of simulated time has passed.
func (f *Flag) WaitFor(d time.Duration) bool {
	tm := time.NewTimer(d)
	defer tm.Stop()
	select {
	case <-f.ch:
		return true
	case <-tm.C:
		return f.IsSet()
	}
}

// RunOut is the outcome of one simulated run.
type RunOut struct {
	Res        simrt.Result
	Violations []Violation
	Armed      bool
	Counts     map[string]int
	NetStats   map[string]int
	Probes     map[string]int
	Trace      []string
	Log        string
	Tape       []uint32
}

type chachaReader struct{ c *mrand.ChaCha8 }

func (r chachaReader) Read(p []byte) (int, error) { return r.c.Read(p) }

var logMu sync.Mutex

// Execute runs scen as the main task of a fresh simulation.
func Execute(t *testing.T, tape *simrt.Tape, tier string, keepLog bool, maxSim time.Duration, maxSteps int, scen func(w *World)) RunOut {
	w := &World{T: tape, Net: simnet.NewNetwork(), Counts: map[string]int{}, Tier: tier}
	simnet.Install(w.Net)
	defer simnet.Uninstall()
	var seed [32]byte
	copy(seed[:], "lime-go-verif-uuid-stream-000000")
	uuid.SetRand(chachaReader{mrand.NewChaCha8(seed)})
	defer uuid.SetRand(nil)
	log.SetOutput(&w.logbuf)
	log.SetFlags(0)
	simrt.TakeProbes()
	cfg := simrt.Config{Tape: tape, KeepLog: keepLog, MaxSimTime: maxSim, MaxSteps: maxSteps, OnTeardown: w.Net.Shutdown}
	cfg.AfterStep = func() {
		for _, h := range w.hooks {
			simrt.Inspect(h)
		}
	}
	// swarm: exploration strategy of this run
	switch tape.Draw(8) {
	case 0:
		cfg.Strategy = simrt.StratSeq
	case 1, 2:
		cfg.Strategy = simrt.StratRandom
	case 3, 4, 5:
		cfg.Strategy = simrt.StratSticky
		cfg.StickyPct = 60 + 10*tape.Draw(4)
	default:
		cfg.Strategy = simrt.StratPCT
		cfg.PCTDepth = 1 + tape.Draw(4)
	}
	cfg.PermIdent = []int{90, 50, 10}[tape.Draw(3)]
	// swarm: the TLS version the clients of this run speak (1.2 differs where it matters to a
	// stream reader: its alerts are visible as such on the record layer, so crypto/tls hands the
	// last application data out together with the end of the stream)
	tlsClientMax12 = tape.Draw(3) == 1
	// swarm: knobs of the listeners and of the TLS material that no property is about, so that
	// no verdict silently depends on one value of them
	// the bytes of every TLS handshake of this run (randoms, key shares) come from a seeded stream:
	// what depends on them - a transport that mistreats particular byte values - replays exactly
	cryptotest.SetGlobalRandom(t, uint64(tape.Draw(1<<20)))
	swarm = swarmKnobs{ConnBuf: []int{0, 0, 1, 8}[tape.Draw(4)], WSCompress: tape.Draw(4) == 1, CertVia: []int{0, 0, 1, 2}[tape.Draw(4)], WSDialCfg: tape.Draw(3) == 0}
	res := simrt.Run(t, cfg, func() {
		// package-level state of the library (listener registries and the like) starts afresh
		lime.VerifResetGlobals()
		scen(w)
	})
	out := RunOut{Res: res, Violations: w.viol, Armed: w.Armed, Counts: w.Counts, NetStats: w.Net.TakeStats(), Probes: simrt.TakeProbes(), Trace: w.Trace, Tape: tape.Rec}
	if keepLog {
		out.Log = w.logbuf.String()
	}
	return out
}

// ---- TLS material (generated once per process, outside any bubble) ----

var (
	tlsOnce   sync.Once
	srvTLS    *tls.Config
	cliTLS    *tls.Config
	tlsGenErr error
	// tlsClientMax12 is set per run (Execute): client configurations stop at TLS 1.2
	tlsClientMax12 bool
	swarm          swarmKnobs
)

// swarmKnobs are per-run choices (Execute) applied wherever the harness configures a listener.
type swarmKnobs struct {
	ConnBuf    int  // ConnBuffer of TCP and websocket listeners (accepted connections waiting for Accept)
	WSCompress bool // permessage-deflate offered by websocket listeners and by the scripted websocket peers
	CertVia    int  // how the server's tls.Config supplies its certificate: 0 Certificates, 1 GetCertificate, 2 GetConfigForClient
	WSDialCfg  bool // real clients hand a TLS configuration to DialWebsocket for ws:// URLs too
}

// SrvTCPConfig is the TCP listener configuration of this run.
func SrvTCPConfig(withTLS bool) *lime.TCPConfig {
	c := &lime.TCPConfig{ConnBuffer: swarm.ConnBuf}
	if withTLS {
		c.TLSConfig, _ = TLSConfigs()
	}
	return c
}

// SrvWSConfig is the websocket listener configuration of this run.
func SrvWSConfig(withTLS bool) *lime.WebsocketConfig {
	c := &lime.WebsocketConfig{ConnBuffer: swarm.ConnBuf, EnableCompression: swarm.WSCompress}
	if withTLS {
		c.TLSConfig, _ = TLSConfigs()
	}
	return c
}

// TLSConfigs returns a server and a client TLS configuration sharing one Ed25519
// certificate that is valid around the bubble epoch (2000-01-01).
func TLSConfigs() (*tls.Config, *tls.Config) {
	tlsOnce.Do(func() {
		// (a fixed key: the certificate is the same in every process, so that a replay in a fresh
		// process sees the same bytes on the wire as the run that found the violation)
		priv := ed25519.NewKeyFromSeed([]byte("lime-go-verif-fixed-ed25519-seed"))
		pub := priv.Public().(ed25519.PublicKey)
		tmpl := &x509.Certificate{
			SerialNumber:          big.NewInt(1),
			Subject:               pkix.Name{CommonName: "localhost"},
			NotBefore:             time.Date(1990, 1, 1, 0, 0, 0, 0, time.UTC),
			NotAfter:              time.Date(2200, 1, 1, 0, 0, 0, 0, time.UTC),
			KeyUsage:              x509.KeyUsageDigitalSignature,
			ExtKeyUsage:           []x509.ExtKeyUsage{x509.ExtKeyUsageServerAuth},
			BasicConstraintsValid: true,
			DNSNames:              []string{"localhost"},
		}
		der, err := x509.CreateCertificate(rand.Reader, tmpl, tmpl, pub, priv)
		if err != nil {
			tlsGenErr = err
			return
		}
		cert := tls.Certificate{Certificate: [][]byte{der}, PrivateKey: priv}
		srvTLS = &tls.Config{Certificates: []tls.Certificate{cert}, MinVersion: tls.VersionTLS12}
		cliTLS = &tls.Config{InsecureSkipVerify: true, ServerName: "localhost", MinVersion: tls.VersionTLS12}
	})
	if tlsGenErr != nil {
		panic(tlsGenErr)
	}
	c := cliTLS.Clone()
	if tlsClientMax12 {
		c.MaxVersion = tls.VersionTLS12
	}
	sc := srvTLS.Clone()
	switch swarm.CertVia {
	case 1:
		cert := sc.Certificates[0]
		sc.Certificates = nil
		sc.GetCertificate = func(*tls.ClientHelloInfo) (*tls.Certificate, error) { return &cert, nil }
	case 2:
		inner := sc.Clone()
		sc.Certificates = nil
		sc.GetConfigForClient = func(*tls.ClientHelloInfo) (*tls.Config, error) { return inner, nil }
	}
	return sc, c
}

// ---- small helpers ----

func hash64(parts ...string) uint64 {
	h := fnv.New64a()
	for _, p := range parts {
		h.Write([]byte(p))
		h.Write([]byte{0})
	}
	return h.Sum64()
}

func canonJSON(v interface{}) string {
	b, err := json.Marshal(v)
	if err != nil {
		return "!marshal-error:" + err.Error()
	}
	return string(b)
}

func sortedKeys(m map[string]int) []string {
	ks := make([]string, 0, len(m))
	for k := range m {
		ks = append(ks, k)
	}
	sort.Strings(ks)
	return ks
}

func short(s string, n int) string {
	if len(s) <= n {
		return s
	}
	return s[:n] + fmt.Sprintf("...(+%d)", len(s)-n)
}

var _ = strings.Contains
