package harness

import (
	"fmt"
	"strings"
	"time"

	"verifsim/simrt"
)

// C14: every connection that fails to establish is released by the server.

func genPlanC14(t *simrt.Tape, tier string) interface{} {
	p := genPlanSrv(t, tier).(*PlanSrv)
	p.Conf.Full = true
	p.Conf.PostEstab = 0
	n := 1 + t.Draw(4)
	p.Scripts = nil
	for i := 0; i < n; i++ {
		switch t.Draw(4) {
		case 0:
			// a cooperative client (may well succeed)
			sc := []Step{}
			for j := 3 + t.Draw(3); j > 0; j-- {
				sc = append(sc, Step{Op: "auto", Choice: t.Draw(4), From: i})
			}
			p.Scripts = append(p.Scripts, sc)
		case 1:
			// a client that vanishes at some step
			sc := []Step{}
			for j := t.Draw(4); j > 0; j-- {
				sc = append(sc, Step{Op: "auto", Choice: t.Draw(4), From: i})
			}
			sc = append(sc, Step{Op: []string{"close", "reset"}[t.Draw(2)]})
			p.Scripts = append(p.Scripts, sc)
		default:
			p.Scripts = append(p.Scripts, GenScript(t, 6))
		}
	}
	// callback errors are what this property is about
	if t.Draw(2) == 0 {
		p.Conf.AuthOut = nil
		for i := 1 + t.Draw(3); i > 0; i-- {
			p.Conf.AuthOut = append(p.Conf.AuthOut, []int{0, 1, 2, 3, 3, 5}[t.Draw(6)])
		}
	}
	p.Conf.RegOut = []int{0, 0, 1, 1, 2}[t.Draw(5)]
	if t.Draw(3) == 0 {
		// the peer vanishes exactly while the server is inside a callback
		p.Conf.VanishIn = []string{"auth", "reg"}[t.Draw(2)]
		p.Conf.VanishRST = t.Draw(2) == 0
		p.Conf.RegOut = 0
	}
	if t.Draw(8) == 0 {
		// a long multi-step authentication: many round trips, then a rejection (or an error)
		k := 6 + t.Draw(9)
		p.Conf.AuthOut = nil
		for i := 0; i < k; i++ {
			p.Conf.AuthOut = append(p.Conf.AuthOut, 2)
		}
		p.Conf.AuthOut = append(p.Conf.AuthOut, []int{1, 3, 5}[t.Draw(3)])
		sc := []Step{{Op: "auto"}, {Op: "auto", Choice: t.Draw(4)}}
		for i := 0; i < k+2; i++ {
			sc = append(sc, Step{Op: "auto", Choice: t.Draw(4)})
		}
		p.Scripts[0] = sc
		p.Conf.VanishIn = ""
	}
	if t.Draw(6) == 0 {
		// the server itself is closed while a handshake is inside a callback: the pending
		// connections are refused connections like any other
		p.Conf.CloseIn = []string{"auth", "reg"}[t.Draw(2)]
	}
	p.LingerS = 90
	p.Chatter = t.Draw(3) == 0
	return p
}

func runC14(w *World, pi interface{}) {
	p := pi.(*PlanSrv)
	p.Conf.Full = true
	if p.LingerS < 90 {
		p.LingerS = 90
	}
	h, sut, peers := runSrvScenario(w, p, nil)
	if sut == nil {
		return
	}
	// h is a frozen copy taken after the zero-time activity settled. The socket taps are read
	// after it was taken: taps only grow and the server writes before it calls back, so every
	// callback in h has its envelope on the tap already.
	sig := func(what string) string { return fmt.Sprintf("%s transport=%s", what, p.Conf.Transport) }
	established := map[int]bool{}
	wrote := map[int]bool{}
	unknown := map[int]bool{}
	sidOf := map[int]string{}
	clientLeft := map[int]bool{}
	for k, peer := range peers {
		if peer == nil {
			continue
		}
		for _, e := range h.Of(k) {
			switch e.Kind {
			case "s-frame":
				if id := fstr(e.Frame, "id"); id != "" && isSessionFrame(e.Frame) && sidOf[k] == "" {
					sidOf[k] = id
				}
				if fstr(e.Frame, "state") == "established" {
					established[k] = true
				}
			case "c-close":
				clientLeft[k] = true
			}
		}
		// the server may have written the established envelope to the socket although the client never read it
		if peer.Link != nil && !peer.TLS && !peer.WSS && !(peer.Kind == "ws" && swarm.WSCompress) { // (deflated frames cannot be read off the tap)
			if strings.Contains(string(peer.Link.BA.Tap()), `"state":"established"`) {
				wrote[k] = true
			}
		} else if !established[k] {
			unknown[k] = true // encrypted or in-process: what the server managed to send cannot be seen
		}
	}
	// from the server's point of view a session whose established envelope reached the socket did establish
	for k := range peers {
		if wrote[k] || unknown[k] {
			established[k] = true
		}
	}
	// A connection on which the server's latest word is a non-terminal session envelope that the
	// client has not answered is legitimately open: the server is waiting for the client.
	waiting := map[int]bool{}
	for k, peer := range peers {
		if peer == nil || established[k] || clientLeft[k] {
			continue
		}
		evs := h.Of(k, "c-send", "c-bytes", "s-frame")
		if len(evs) == 0 {
			waiting[k] = true // nothing sent at all: the server waits for the first envelope
			continue
		}
		// (a byte stream only: over a websocket every message is complete in itself, and one that
		// holds a truncated JSON value is undecodable input like any other)
		streamed := peer.Kind == "tcp"
		for _, e := range evs {
			if streamed && e.Kind == "c-bytes" && e.Note == "half-frame" {
				// after an incomplete frame whatever follows may still be one unfinished JSON value
				waiting[k] = true
			}
		}
		last := evs[len(evs)-1]
		if last.Kind == "s-frame" {
			st := fstr(last.Frame, "state")
			if st != "failed" && st != "finished" {
				waiting[k] = true
			}
		} else if streamed && last.Kind == "c-bytes" && last.Note == "half-frame" {
			waiting[k] = true // an incomplete frame is no input yet
		}
	}
	// 1. a refused client is never left on an open connection nobody serves
	for k, peer := range peers {
		if peer == nil || established[k] || clientLeft[k] || waiting[k] {
			continue
		}
		if !peer.RemoteClosed().IsSet() {
			sent := h.Of(k, "c-send", "c-bytes")
			last := HEvent{}
			if len(sent) > 0 {
				last = sent[len(sent)-1]
			}
			w.Violate("C14.refused-client-left-on-open-connection", sig(lastInputClass(h, k)), "connection %d did not establish, yet %d s after the client's last input (%s) the server has neither answered nor closed the connection\n%s",
				k, p.LingerS, short(canonJSON(last.Frame)+last.Raw, 160), h.Dump(60))
		}
	}
	// 2. no callbacks for connections that did not establish
	estIDs := map[string]bool{}
	allKnown := true
	for k := range peers {
		if established[k] || wrote[k] || unknown[k] {
			estIDs[sidOf[k]] = true
		}
		if peers[k] != nil && sidOf[k] == "" {
			allKnown = false
		}
	}
	for _, e := range h.Ev {
		if e.Kind == "cb-established" || e.Kind == "cb-finished" {
			id := fstr(e.Frame, "id")
			if !estIDs[id] && (allKnown || len(peers) == 1) {
				w.Violate("C14.callback-for-unestablished-connection", sig(e.Kind), "%s fired for session %s, which no client saw established\n%s", e.Kind, id, h.Dump(60))
			}
		}
	}
	// a refused client that keeps talking is disconnected all the same: the failed session is followed
	// by the close within the bound, whatever the client goes on sending
	if p.Chatter {
		for k := range peers {
			var failedAt, closedAt int64 = -1, -1
			for _, e := range h.Of(k, "s-frame", "s-close") {
				if e.Kind == "s-frame" && fstr(e.Frame, "state") == "failed" && failedAt < 0 {
					failedAt = e.AtMs
				}
				if e.Kind == "s-close" && closedAt < 0 {
					closedAt = e.AtMs
				}
			}
			if failedAt >= 0 && (closedAt < 0 || closedAt-failedAt > 60000) {
				w.Violate("C14.refused-client-kept-on-the-line", sig("chatter"), "connection %d was refused at %d ms and went on sending session envelopes; the server closed the connection at %d ms (-1: never), more than 60 s later\n%s", k, failedAt, closedAt, h.Dump(40))
			}
		}
	}
	// a client that leaves is not held by the connection: closing its own end returns
	for k, peer := range peers {
		if peer != nil && peer.CloseBlocked {
			w.Violate("C14.client-close-blocked", sig(lastInputClass(h, k)), "connection %d: the client's Close of its %s connection had not returned 30 s later (established: %v)\n%s", k, peer.Kind, established[k], h.Dump(60))
		}
	}
	// 3. the server end of every failed connection is closed, and nothing keeps serving it
	for k, peer := range peers {
		if peer == nil || established[k] || peer.Link == nil || waiting[k] {
			continue
		}
		if !peer.Link.B.Accepted() {
			continue // still in the accept queue when the listener closed: reset by the network, never the server's to close
		}
		if !w.Eventually(60*time.Second, func() bool { return peer.Link.B.IsClosed() }) {
			w.Violate("C14.server-end-not-closed", sig(lastInputClass(h, k)), "connection %d did not establish, but the server never closed its end of the connection (client left: %v)\n%s", k, clientLeft[k], h.Dump(60))
		}
	}
	// close the clients that are still connected, then count what is left of the serving side
	nOpen := 0
	for k, pr := range peers {
		if pr != nil && established[k] && !pr.RemoteClosed().IsSet() && !clientLeft[k] {
			nOpen++
		}
	}
	time.Sleep(10 * time.Second)
	live := 0
	var names []string
	for _, ti := range simrt.Census() {
		if strings.HasPrefix(ti.SpawnSite, "server.go") && strings.HasSuffix(ti.SpawnSite, ":go") {
			live++
			names = append(names, fmt.Sprintf("%s(%s at %s, %s)", ti.ID, ti.SpawnSite, ti.Site, ti.State))
		}
	}
	silent := 0
	for k, pr := range peers {
		if pr != nil && waiting[k] {
			silent++
		}
	}
	if live > nOpen+silent {
		w.Violate("C14.serving-goroutines-left", sig("handleChannel"), "%d session goroutines are alive but only %d connections are established and open (%d silent): %v\n%s", live, nOpen, silent, names, h.Dump(60))
	}
	for _, pr := range peers {
		if pr != nil && !pr.RemoteClosed().IsSet() {
			pr.Close()
		}
	}
	sut.Shutdown()
}

func lastInputClass(h *History, k int) string {
	sent := h.Of(k, "c-send", "c-bytes")
	if len(sent) == 0 {
		return "none"
	}
	last := sent[len(sent)-1]
	if last.Kind == "c-bytes" {
		return "after-" + last.Note
	}
	if isSessionFrame(last.Frame) {
		return "after-session-" + fstr(last.Frame, "state")
	}
	return "after-data-envelope"
}

func init() {
	register(&PropDef{
		ID:     "C14",
		New:    func() interface{} { return &PlanSrv{} },
		Gen:    genPlanC14,
		Run:    runC14,
		MaxSim: 3 * time.Hour,
		Rule: "C03's plan space against a full ServerBuilder server, 1-4 concurrent scripted clients per run mixing cooperative ones, clients that vanish (FIN/RST) at a chosen step and random words over the handshake alphabet; " +
			"authentication outcomes biased to errors/rejections/round trips, registration errors, authentications of 6-14 round trips before a rejection, Server.Close called from inside a callback of a pending handshake; each client keeps reading for 90 simulated seconds; oracle: refused client sees the connection closed, no callbacks, server end closed, session goroutine census; " +
			"in-process queue of 4, 1 or 0 envelopes and deaf in-process clients; a client's Close of its own connection returns within 30 s; listener queues (ConnBuffer) of 0, 1 or 8 connections; " +
			"non-trivial = at least one scripted client connected; distinct = distinct (plan JSON, event-log hash)",
	})
}
