package harness

import (
	"context"
	"encoding/base64"
	"encoding/json"
	"errors"
	"fmt"
	"time"

	lime "github.com/takenet/lime-go"
	"verifsim/simrt"
)

// SrvConf configures the real serving endpoint of a scripted-client scenario.
type SrvConf struct {
	Transport   string   `json:"transport"` // tcp, ws, inproc
	TLSCap      bool     `json:"tls_cap"`   // tcp: listener has a TLS config; ws: wss
	Comp        []string `json:"comp"`
	Enc         []string `json:"enc"`
	Schemes     []string `json:"schemes"`
	Full        bool     `json:"full"`                    // real Server from ServerBuilder instead of a bare ServerChannel
	Buf         int      `json:"buf"`                     // channel buffer size
	DeafInProc  bool     `json:"deaf_inproc,omitempty"`   // in-process scripted clients never read what the server sends them
	IPQueue     int      `json:"ip_queue,omitempty"`      // in-process connections: 0 = a queue of 4 envelopes per direction, k > 0 = a queue of k-1 (so 1 is no queue at all)
	AuthOut     []int    `json:"auth_out"`                // outcome of the k-th authenticate call: 0 member, 1 unknown, 2 round trip, 3 error, 4 authority, 5 empty role
	RegOut      int      `json:"reg_out"`                 // 0 node derived from candidate, 1 error, 2 fixed other node
	PostEstab   int      `json:"post_estab"`              // bare mode, once the script is over: 0 leave, 1 FinishSession, 2 FailSession
	EstabCtxS   int      `json:"estab_ctx_s"`             // bare mode: EstablishSession context timeout in seconds (0 = 120)
	VanishIn    string   `json:"vanish_in"`               // "", auth, reg: the peer vanishes while the server is inside that callback
	VanishRST   bool     `json:"vanish_rst"`              // reset instead of an orderly close
	CloseIn     string   `json:"close_in,omitempty"`      // "", auth, reg: Server.Close is called while the server is inside that callback (full mode)
	AutoPing    bool     `json:"auto_ping,omitempty"`     // full mode: the server is built with AutoReplyPings()
	AuthDelayMs int      `json:"auth_delay_ms,omitempty"` // the authentication callback takes this long (concurrent handshakes overlap inside it)
	// WarmUp (full mode, tcp/ws): the server has a second, in-process listener, over which a
	// handshake is begun and abandoned before the scripted clients connect
	WarmUp bool `json:"warm_up,omitempty"`
	// OtherBuilder (full mode): after this server is built, an unrelated server is built (never
	// started) with its own, different option lists
	OtherBuilder bool `json:"other_builder,omitempty"`
	// EarlySender (full mode): the registration callback hands the channel to a task that sends a
	// message on it as soon as the channel calls itself established
	EarlySender bool `json:"early_sender,omitempty"`
}

var allSchemes = []string{"guest", "plain", "key", "transport", "external"}

// GenSrvConf draws a server configuration from the representative lattice.
func GenSrvConf(t *simrt.Tape) SrvConf {
	c := SrvConf{}
	c.Transport = []string{"tcp", "tcp", "tcp", "ws", "inproc"}[t.Draw(5)]
	c.TLSCap = t.Draw(2) == 0
	c.Comp = [][]string{{"none"}, {"none"}, {"none", "gzip"}, {"gzip", "none"}, {"none"}, {"gzip"}}[t.Draw(6)]
	c.Enc = [][]string{{"none"}, {"none", "tls"}, {"tls", "none"}, {"tls"}}[t.Draw(4)]
	n := 1 + t.Draw(3)
	perm := []int{0, 1, 2, 3, 4}
	for i := 0; i < n; i++ {
		j := i + t.Draw(5-i)
		perm[i], perm[j] = perm[j], perm[i]
		c.Schemes = append(c.Schemes, allSchemes[perm[i]])
	}
	c.Full = t.Draw(3) == 0
	c.Buf = []int{0, 1, 8}[t.Draw(3)]
	for i := t.Draw(4); i > 0; i-- {
		c.AuthOut = append(c.AuthOut, []int{0, 0, 1, 2, 2, 3, 4, 5}[t.Draw(8)])
	}
	c.RegOut = []int{0, 0, 0, 1, 2}[t.Draw(5)]
	c.PostEstab = t.Draw(3)
	c.IPQueue = []int{0, 0, 1, 2}[t.Draw(4)]
	return c
}

func toComp(ss []string) []lime.SessionCompression {
	out := []lime.SessionCompression{}
	for _, s := range ss {
		out = append(out, lime.SessionCompression(s))
	}
	return out
}

func toEnc(ss []string) []lime.SessionEncryption {
	out := []lime.SessionEncryption{}
	for _, s := range ss {
		out = append(out, lime.SessionEncryption(s))
	}
	return out
}

func toSchemes(ss []string) []lime.AuthenticationScheme {
	out := []lime.AuthenticationScheme{}
	for _, s := range ss {
		out = append(out, lime.AuthenticationScheme(s))
	}
	return out
}

var serverNode = lime.Node{Identity: lime.Identity{Name: "postmaster", Domain: "srv.org"}, Instance: "s1"}

// SUT is the real serving endpoint under test.
type SUT struct {
	w        *World
	h        *History
	Conf     SrvConf
	Port     int
	InProc   lime.InProcessAddr
	listener lime.TransportListener
	server   *lime.Server
	serveRet *Flag
	ServeErr error
	authN    int
	Chans    []*lime.ServerChannel // bare mode: one per accepted connection, in accept order
	EstRet   []*Flag
	EstErr   []error
	SIDs     []string
	ctx      context.Context
	cancel   context.CancelFunc
	Handler  func(ctx context.Context, kind string, env interface{}, s lime.Sender) error
	ConnMap  map[int]int // accept index -> scripted peer index
	Peers    []*RawPeer

	closedInCallback bool
}

// vanish makes the peer that owns session sid (or the only peer) disappear right now.
func (s *SUT) vanish(where, sid string) {
	if s.Conf.CloseIn == where && s.server != nil && !s.closedInCallback {
		// the server is closed while this handshake is still pending
		s.closedInCallback = true
		s.w.Count("server-closed-in-" + where)
		s.h.Add(-1, "server-close-called", nil, "", "inside the "+where+" callback")
		_ = s.server.Close()
	}
	if s.Conf.VanishIn != where {
		return
	}
	var target *RawPeer
	for idx, p := range s.Peers {
		if p == nil {
			continue
		}
		for _, e := range s.h.Of(idx, "s-frame") {
			if isSessionFrame(e.Frame) && fstr(e.Frame, "id") == sid && sid != "" {
				target = p
			}
		}
	}
	if target == nil && len(s.Peers) == 1 {
		target = s.Peers[0]
	}
	if target == nil || target.RemoteClosed().IsSet() {
		return
	}
	s.w.Count("peer-vanished-in-" + where)
	if s.Conf.VanishRST {
		target.Reset()
	} else {
		target.Close()
	}
}

func (s *SUT) authOutcome() int {
	k := s.authN
	s.authN++
	if len(s.Conf.AuthOut) == 0 {
		return 0
	}
	if k >= len(s.Conf.AuthOut) {
		return s.Conf.AuthOut[len(s.Conf.AuthOut)-1]
	}
	return s.Conf.AuthOut[k]
}

func outcomeResult(o int) (*lime.AuthenticationResult, error) {
	switch o {
	case 0:
		return lime.MemberAuthenticationResult(), nil
	case 1:
		return lime.UnknownAuthenticationResult(), nil
	case 2:
		return &lime.AuthenticationResult{Role: lime.DomainRoleUnknown, RoundTrip: &lime.ExternalAuthentication{Token: "challenge", Issuer: "srv"}}, nil
	case 3:
		return nil, errors.New("authenticator backend down")
	case 4:
		return lime.AuthorityAuthenticationResult(), nil
	default:
		return &lime.AuthenticationResult{Role: ""}, nil
	}
}

var outcomeNames = []string{"member", "unknown", "roundtrip", "error", "authority", "empty-role"}

func (s *SUT) connOf(sid string) int {
	for i, x := range s.SIDs {
		if x == sid {
			return i
		}
	}
	return -1
}

func (s *SUT) recAuth(conn int, id lime.Identity, scheme string, auth interface{}, o int) {
	sid := ""
	if conn >= 1000 && conn-1000 < len(s.SIDs) {
		sid = s.SIDs[conn-1000]
	}
	s.vanish("auth", sid)
	var am map[string]interface{}
	if auth != nil {
		json.Unmarshal([]byte(canonJSON(auth)), &am)
	}
	s.h.Add(conn, "auth", map[string]interface{}{"identity": id.String(), "scheme": scheme, "authentication": am, "outcome": outcomeNames[o]}, "", "")
	if s.Conf.AuthDelayMs > 0 {
		time.Sleep(time.Duration(s.Conf.AuthDelayMs) * time.Millisecond)
	}
}

func (s *SUT) register(conn int) func(ctx context.Context, cand lime.Node, c *lime.ServerChannel) (lime.Node, error) {
	return func(ctx context.Context, cand lime.Node, c *lime.ServerChannel) (lime.Node, error) {
		s.vanish("reg", c.ID())
		k := conn
		if k < 0 {
			k = s.connOf(c.ID())
		}
		if k >= 1000 {
			k -= 1000
		}
		var n lime.Node
		var err error
		switch s.Conf.RegOut {
		case 1:
			err = errors.New("registry unavailable")
		case 2:
			n = lime.Node{Identity: lime.Identity{Name: "assigned", Domain: "other.org"}, Instance: fmt.Sprintf("i%d", k)}
		default:
			n = lime.Node{Identity: lime.Identity{Name: cand.Name, Domain: serverNode.Domain}, Instance: fmt.Sprintf("r%d", k)}
		}
		note := ""
		if err != nil {
			note = err.Error()
		}
		s.h.Add(conn, "reg", map[string]interface{}{"candidate": cand.String(), "node": n.String()}, "", note)
		if s.Conf.EarlySender && err == nil {
			// a router that was handed the channel and starts using it the moment it looks established
			go func() {
				for i := 0; i < 400; i++ {
					if c.Established() {
						txt := lime.TextDocument("routed")
						m := &lime.Message{}
						m.SetContent(&txt).SetID("early-" + c.ID())
						sctx, scancel := context.WithTimeout(context.Background(), 5*time.Second)
						_ = c.SendMessage(sctx, m)
						scancel()
						s.w.Count("early-sender-sent")
						return
					}
					st := c.State()
					if st == lime.SessionStateFailed || st == lime.SessionStateFinished {
						return
					}
					if i >= 200 {
						time.Sleep(5 * time.Millisecond)
					}
				}
			}()
		}
		return n, err
	}
}

// StartSUT starts the serving endpoint and returns once it is listening.
func StartSUT(w *World, h *History, conf SrvConf, port int) (*SUT, error) {
	s := &SUT{w: w, h: h, Conf: conf, Port: port, serveRet: NewFlag()}
	s.ctx, s.cancel = context.WithCancel(context.Background())
	srvTLS, _ := TLSConfigs()
	tcpCfg := SrvTCPConfig(false)
	wsCfg := SrvWSConfig(false)
	if conf.TLSCap {
		tcpCfg.TLSConfig = srvTLS
		wsCfg.TLSConfig = srvTLS
	}
	s.InProc = lime.InProcessAddr(fmt.Sprintf("inproc-%d-%d", port, ProcUniq()))
	if conf.Full {
		b := lime.NewServerBuilder().Name(serverNode.Name).Domain(serverNode.Domain).Instance(serverNode.Instance).
			CompressionOptions(toComp(conf.Comp)...).EncryptionOptions(toEnc(conf.Enc)...).ChannelBufferSize(conf.Buf)
		switch conf.Transport {
		case "tcp":
			b.ListenTCP(tcpAddr(port), tcpCfg)
		case "ws":
			b.ListenWebsocket(tcpAddr(port), wsCfg)
		default:
			b.ListenInProcess(s.InProc)
		}
		inProc2 := lime.InProcessAddr("")
		if conf.WarmUp && conf.Transport != "inproc" {
			inProc2 = lime.InProcessAddr(fmt.Sprintf("warmup-%d-%d", port, ProcUniq()))
			b.ListenInProcess(inProc2)
		}
		hasTransport := false
		for _, sc := range conf.Schemes {
			switch sc {
			case "guest":
				b.EnableGuestAuthentication()
			case "transport":
				hasTransport = true
			case "plain":
				b.EnablePlainAuthentication(func(ctx context.Context, id lime.Identity, pwd string) (*lime.AuthenticationResult, error) {
					o := s.authOutcome()
					sid, _ := lime.ContextSessionID(ctx)
					_ = sid
					a := &lime.PlainAuthentication{}
					a.SetPasswordAsBase64(pwd)
					s.recAuth(-1, id, "plain", a, o)
					return outcomeResult(o)
				})
			case "key":
				b.EnableKeyAuthentication(func(ctx context.Context, id lime.Identity, key string) (*lime.AuthenticationResult, error) {
					o := s.authOutcome()
					a := &lime.KeyAuthentication{}
					a.SetKeyAsBase64(key)
					s.recAuth(-1, id, "key", a, o)
					return outcomeResult(o)
				})
			case "external":
				b.EnableExternalAuthentication(func(ctx context.Context, id lime.Identity, token, issuer string) (*lime.AuthenticationResult, error) {
					o := s.authOutcome()
					s.recAuth(-1, id, "external", &lime.ExternalAuthentication{Token: token, Issuer: issuer}, o)
					return outcomeResult(o)
				})
			}
		}
		_ = hasTransport
		b.Register(s.register(-1))
		b.Established(func(sid string, c *lime.ServerChannel) {
			s.h.Add(-1, "cb-established", map[string]interface{}{"id": sid, "state": string(c.State()), "established": c.Established(), "remote": c.RemoteNode().String()}, "", "")
		})
		b.Finished(func(sid string) {
			s.h.Add(-1, "cb-finished", map[string]interface{}{"id": sid}, "", "")
		})
		hk := func(kind string) func(ctx context.Context, env interface{}, snd lime.Sender) error {
			return func(ctx context.Context, env interface{}, snd lime.Sender) error {
				sid, _ := lime.ContextSessionID(ctx)
				_, id, _ := Describe(env)
				s.h.Add(-1, "handler", map[string]interface{}{"session": sid, "kind": kind, "id": id}, "", "")
				if s.Handler != nil {
					return s.Handler(ctx, kind, env, snd)
				}
				return nil
			}
		}
		if conf.AutoPing {
			// registered first: the first handler whose predicate accepts an envelope gets it, and
			// this one's predicate looks into every request command
			b.AutoReplyPings()
		}
		b.MessagesHandlerFunc(func(ctx context.Context, m *lime.Message, snd lime.Sender) error { return hk("message")(ctx, m, snd) })
		b.NotificationsHandlerFunc(func(ctx context.Context, n *lime.Notification) error { return hk("notification")(ctx, n, nil) })
		b.RequestCommandsHandlerFunc(func(ctx context.Context, c *lime.RequestCommand, snd lime.Sender) error {
			return hk("request")(ctx, c, snd)
		})
		b.ResponseCommandsHandlerFunc(func(ctx context.Context, c *lime.ResponseCommand, snd lime.Sender) error {
			return hk("response")(ctx, c, snd)
		})
		s.server = b.Build()
		if conf.OtherBuilder {
			// a second server of the same process, configured differently, must not touch this one
			_ = lime.NewServerBuilder().Name("other").CompressionOptions(lime.SessionCompressionNone).EncryptionOptions(lime.SessionEncryptionNone, lime.SessionEncryptionTLS).
				ListenInProcess(lime.InProcessAddr(fmt.Sprintf("other-%d-%d", port, ProcUniq()))).EnableGuestAuthentication().Build()
		}
		// the builder starts from the default scheme list (transport); make the offer exactly conf.Schemes
		if !hasTransport {
			// nothing public removes a scheme: full mode always offers "transport" too
			s.Conf.Schemes = append([]string{"transport"}, filterOut(conf.Schemes, "transport")...)
		} else {
			s.Conf.Schemes = append([]string{"transport"}, filterOut(conf.Schemes, "transport")...)
		}
		go func() {
			s.ServeErr = s.server.ListenAndServe()
			s.h.Add(-1, "serve-return", nil, "", fmt.Sprint(s.ServeErr))
			s.serveRet.Set()
		}()
		// wait until it listens
		ok := w.Eventually(30*time.Second, func() bool {
			if conf.Transport == "inproc" {
				t, err := lime.DialInProcess(s.InProc, 1)
				if err == nil {
					t.Close()
					return true
				}
				return false
			}
			return w.Net.Listening(tcpAddr(port).String())
		})
		if !ok {
			return nil, errors.New("server did not start listening")
		}
		if inProc2 != "" {
			// a first connection over the transport that supports less than the configuration offers:
			// whatever it does to the server's option lists, the scripted clients see afterwards
			keep := s.h
			s.h = &History{}
			if t, err := lime.DialInProcess(inProc2, 1); err == nil {
				wctx, wcancel := context.WithTimeout(context.Background(), 5*time.Second)
				_ = sendMapInProc(wctx, t, map[string]interface{}{"state": "new"})
				_, _ = t.Receive(wctx)
				wcancel()
				t.Close()
				w.Count("warm-up-over-second-listener")
			}
			time.Sleep(200 * time.Millisecond)
			s.h = keep
		}
		return s, nil
	}
	// bare ServerChannel mode
	switch conf.Transport {
	case "tcp":
		s.listener = lime.NewTCPTransportListener(tcpCfg)
		if err := s.listener.Listen(s.ctx, tcpAddr(port)); err != nil {
			return nil, err
		}
	case "ws":
		s.listener = lime.NewWebsocketTransportListener(wsCfg)
		if err := s.listener.Listen(s.ctx, tcpAddr(port)); err != nil {
			return nil, err
		}
	default:
		s.listener = lime.NewInProcessTransportListener(s.InProc)
		if err := s.listener.Listen(s.ctx, s.InProc); err != nil {
			return nil, err
		}
	}
	go func() {
		for {
			t, err := s.listener.Accept(s.ctx)
			if err != nil {
				return
			}
			k := len(s.Chans)
			sid := fmt.Sprintf("sid-%d-%04d", k, 1000+k)
			ch := lime.NewServerChannel(t, conf.Buf, serverNode, sid)
			s.Chans = append(s.Chans, ch)
			s.SIDs = append(s.SIDs, sid)
			ret := NewFlag()
			s.EstRet = append(s.EstRet, ret)
			s.EstErr = append(s.EstErr, nil)
			go func() {
				to := conf.EstabCtxS
				if to <= 0 {
					to = 120
				}
				ctx, cancel := context.WithTimeout(s.ctx, time.Duration(to)*time.Second)
				defer cancel()
				err := ch.EstablishSession(ctx, toComp(conf.Comp), toEnc(conf.Enc), toSchemes(conf.Schemes),
					func(ctx context.Context, id lime.Identity, a lime.Authentication) (*lime.AuthenticationResult, error) {
						o := s.authOutcome()
						scheme := ""
						if a != nil {
							scheme = string(a.GetAuthenticationScheme())
						}
						s.recAuth(1000+k, id, scheme, a, o)
						s.h.Ev[len(s.h.Ev)-1].Note = "enc=" + string(t.Encryption())
						return outcomeResult(o)
					}, s.register(1000+k))
				s.EstErr[k] = err
				note := ""
				if err != nil {
					note = err.Error()
				}
				s.h.Add(1000+k, "estab-return", map[string]interface{}{"state": string(ch.State()), "established": ch.Established(), "remote": ch.RemoteNode().String(), "enc": string(t.Encryption()), "connected": t.Connected()}, "", note)
				ret.Set()
			}()
		}
	}()
	return s, nil
}

func filterOut(ss []string, x string) []string {
	var out []string
	for _, s := range ss {
		if s != x {
			out = append(out, s)
		}
	}
	return out
}

// Dial connects scripted client idx to the endpoint.
func (s *SUT) Dial(idx int) (*RawPeer, error) {
	switch s.Conf.Transport {
	case "tcp":
		return DialRawTCP(s.w, s.h, idx, tcpAddr(s.Port).String())
	case "ws":
		_, cli := TLSConfigs()
		if s.Conf.TLSCap {
			return DialRawWS(s.w, s.h, idx, fmt.Sprintf("wss://127.0.0.1:%d", s.Port), cli)
		}
		return DialRawWS(s.w, s.h, idx, fmt.Sprintf("ws://127.0.0.1:%d", s.Port), nil)
	default:
		q := 4
		if s.Conf.IPQueue > 0 {
			q = s.Conf.IPQueue - 1
		}
		rawInProcDeaf = s.Conf.DeafInProc
		defer func() { rawInProcDeaf = false }()
		return DialRawInProc(s.w, s.h, idx, s.InProc, q)
	}
}

// Supported returns what the transport kind supports (protocol facts, not read from the code).
func (c SrvConf) Supported() (comp, enc []string) {
	switch c.Transport {
	case "tcp":
		return []string{"none"}, []string{"none", "tls"}
	case "ws":
		if c.TLSCap {
			return []string{"none"}, []string{"tls"}
		}
		return []string{"none"}, []string{"none"}
	default:
		return []string{"none"}, []string{"none"}
	}
}

func intersectS(a, b []string) []string {
	var out []string
	for _, x := range a {
		for _, y := range b {
			if x == y {
				out = append(out, x)
				break
			}
		}
	}
	return out
}

// Shutdown stops the endpoint.
func (s *SUT) Shutdown() {
	if s.server != nil {
		s.server.Close()
		s.serveRet.WaitFor(2 * time.Minute)
	}
	s.cancel()
	if s.listener != nil {
		s.listener.Close()
	}
	for _, ch := range s.Chans {
		ch.Close()
	}
}

// ---- scripted client ----

// Step is one action of a scripted client.
type Step struct {
	Op      string `json:"op"`                // auto, session, data, garbage, half, close, reset, wait, notls
	Choice  int    `json:"choice,omitempty"`  // which offered option / scheme an auto step picks
	Creds   int    `json:"creds,omitempty"`   // 0 valid, 1 wrong secret, 2 malformed base64, 3 no authentication object, 4 object of another scheme
	State   string `json:"state,omitempty"`   // explicit session: state
	IDMode  int    `json:"id_mode,omitempty"` // 0 echo latest, 1 none, 2 wrong, 3 the first id seen
	Scheme  string `json:"scheme,omitempty"`
	Comp    string `json:"comp,omitempty"`
	Enc     string `json:"enc,omitempty"`
	From    int    `json:"from,omitempty"` // identity variant
	Kind    int    `json:"kind,omitempty"` // data envelope kind
	WaitMs  int    `json:"wait_ms,omitempty"`
	Garbage int    `json:"garbage,omitempty"`
	NoWait  bool   `json:"no_wait,omitempty"` // a pipelining client: the next step follows without waiting for the server's answer
}

var garbage = []string{"\x00\x01\x02", "{", "}{", "[1,2,3]", "null", "\"str\"", "{\"state\":", "{\"foo\":\"bar\"}", "{\"state\":\"bogus\"}", "{\"state\":5}", "GET / HTTP/1.1\r\n\r\n", "{\"id\":\"x\",\"content\":\"c\"}"}

var stateNames = []string{"new", "negotiating", "authenticating", "established", "finishing", "finished", "failed"}

// GenScript draws a client script biased towards almost-valid handshakes.
func GenScript(t *simrt.Tape, maxLen int) []Step {
	n := 1 + t.Draw(maxLen)
	var out []Step
	for i := 0; i < n; i++ {
		if t.Draw(10) < 6 {
			out = append(out, Step{Op: "auto", Choice: t.Draw(4), Creds: t.Biased(5, 2, 3), From: t.Draw(5)})
			continue
		}
		switch t.Draw(10) {
		case 0, 1, 2, 3:
			st := Step{Op: "session", State: stateNames[t.Draw(len(stateNames))], IDMode: t.Biased(4, 1, 2), From: t.Draw(5)}
			if t.Draw(2) == 0 {
				st.State = "same" // echo the state of the server's latest session envelope
			}
			if t.Draw(2) == 0 {
				st.Scheme = append(allSchemes, "bogus", "")[t.Draw(7)]
				st.Creds = t.Draw(5)
			}
			if t.Draw(2) == 0 {
				st.Comp = []string{"none", "gzip", "", "bogus"}[t.Draw(4)]
				st.Enc = []string{"none", "tls", "", "bogus"}[t.Draw(4)]
			}
			st.NoWait = t.Draw(5) == 0
			out = append(out, st)
		case 4, 5:
			out = append(out, Step{Op: "data", Kind: t.Draw(4), NoWait: t.Draw(5) == 0})
		case 6:
			out = append(out, Step{Op: "garbage", Garbage: t.Draw(len(garbage))})
		case 7:
			out = append(out, Step{Op: "close"})
		case 8:
			out = append(out, Step{Op: []string{"reset", "notls", "half"}[t.Draw(3)]})
		default:
			out = append(out, Step{Op: "wait", WaitMs: []int{10, 1000, 6000}[t.Draw(3)]})
		}
	}
	return out
}

var validSecret = "correct-horse"

func identityFor(variant int, scheme string) string {
	name := []string{"alice", "bob", "carol"}[variant%3]
	if scheme == "guest" || variant%5 >= 3 {
		// (variants 3 and 4: a UUID-shaped name under any scheme, as a guest would carry)
		name = []string{"4f9c8c5e-1a2b-4c3d-8e9f-0a1b2c3d4e5f", "0e0e0e0e-aaaa-4bbb-8ccc-111111111111", "not-a-uuid"}[variant%3]
	}
	return name + "@cli.org/home"
}

func authObject(scheme string, creds int) map[string]interface{} {
	secret := validSecret
	if creds == 1 {
		secret = "wrong"
	}
	b64 := base64.StdEncoding.EncodeToString([]byte(secret))
	if creds == 2 {
		b64 = "%%%not-base64%%%"
	}
	if creds == 3 {
		return nil
	}
	if creds == 4 {
		// an object that belongs to another scheme
		if scheme == "plain" {
			return map[string]interface{}{"key": b64}
		}
		return map[string]interface{}{"password": b64}
	}
	switch scheme {
	case "plain":
		return map[string]interface{}{"password": b64}
	case "key":
		return map[string]interface{}{"key": b64}
	case "external":
		return map[string]interface{}{"token": b64, "issuer": "issuer.org"}
	default:
		return map[string]interface{}{}
	}
}

// ScriptRun executes a script against the endpoint through p. It returns when the script is
// over; the connection is left open unless the script closed it.
func ScriptRun(w *World, p *RawPeer, steps []Step) {
	firstID := ""
	lastScheme := ""
	for _, st := range steps {
		if p.RemoteClosed().IsSet() && st.Op != "wait" {
			break
		}
		n0 := p.NFrames()
		lf := p.LastSessionFrame()
		sid := fstr(lf, "id")
		if firstID == "" {
			firstID = sid
		}
		idFor := func(mode int) interface{} {
			switch mode {
			case 1:
				return nil
			case 2:
				return "ffffffff-0000-4000-8000-000000000000"
			case 3:
				if firstID != "" {
					return firstID
				}
				return nil
			case 4:
				return p.ForceID // an id this peer learnt elsewhere (another live session's, say)
			}
			if sid == "" {
				return nil
			}
			return sid
		}
		send := func(m map[string]interface{}) {
			for k, v := range m {
				if v == nil || v == "" {
					delete(m, k)
				}
			}
			p.SendJSON(m)
		}
		awaited := true
		if st.Op != "auto" && st.Op != "notls" && p.NeedsTLS() {
			// a script that does not follow the negotiated TLS upgrade keeps reading in cleartext
			p.ResumeCleartext()
		}
		switch st.Op {
		case "auto":
			if p.NeedsTLS() {
				if err := p.UpgradeTLS(false); err != nil {
					w.Count("script-tls-failed")
				}
				break
			}
			switch fstr(lf, "state") {
			case "":
				send(map[string]interface{}{"state": "new"})
			case "negotiating":
				co, eo := fstrs(lf, "compressionOptions"), fstrs(lf, "encryptionOptions")
				if len(co) > 0 || len(eo) > 0 {
					m := map[string]interface{}{"state": "negotiating", "id": idFor(0)}
					if len(co) > 0 {
						m["compression"] = co[st.Choice%len(co)]
					}
					if len(eo) > 0 {
						m["encryption"] = eo[(st.Choice/2)%len(eo)]
					}
					send(m)
				} else {
					awaited = false // confirmation already handled; wait for the authentication request
				}
			case "authenticating":
				so := fstrs(lf, "schemeOptions")
				scheme := lastScheme
				if len(so) > 0 {
					scheme = so[st.Choice%len(so)]
				}
				if scheme == "" {
					scheme = "guest"
				}
				lastScheme = scheme
				m := map[string]interface{}{"state": "authenticating", "id": idFor(0), "from": identityFor(st.From, scheme), "scheme": scheme}
				if a := authObject(scheme, st.Creds); a != nil {
					m["authentication"] = a
				}
				send(m)
			case "established":
				if st.Choice%2 == 0 {
					send(map[string]interface{}{"id": fmt.Sprintf("probe-%d", n0), "type": "text/plain", "content": "probe"})
					awaited = false
				} else {
					send(map[string]interface{}{"state": "finishing", "id": idFor(0)})
				}
			default:
				awaited = false
			}
		case "session":
			state := st.State
			if state == "same" {
				state = fstr(lf, "state")
				if state == "" {
					state = "new"
				}
			}
			m := map[string]interface{}{"state": state, "id": idFor(st.IDMode)}
			if st.Scheme != "" {
				m["scheme"] = st.Scheme
				m["from"] = identityFor(st.From, st.Scheme)
				if a := authObject(st.Scheme, st.Creds); a != nil {
					m["authentication"] = a
				}
			}
			if st.Comp != "" {
				m["compression"] = st.Comp
			}
			if st.Enc != "" {
				m["encryption"] = st.Enc
			}
			send(m)
		case "data":
			switch st.Kind & 3 {
			case 0:
				send(map[string]interface{}{"id": fmt.Sprintf("d-%d", n0), "type": "text/plain", "content": "early"})
			case 1:
				send(map[string]interface{}{"id": fmt.Sprintf("d-%d", n0), "event": "received"})
			case 2:
				send(map[string]interface{}{"id": fmt.Sprintf("d-%d", n0), "method": "get", "uri": "/ping"})
			default:
				send(map[string]interface{}{"id": fmt.Sprintf("d-%d", n0), "method": "get", "status": "success"})
			}
		case "garbage":
			if p.Kind == "inproc" {
				awaited = false
				break
			}
			g := garbage[st.Garbage%len(garbage)]
			if g == "{" || g == "{\"state\":" {
				// an incomplete JSON value: the receiver legitimately waits for the rest
				p.SendBytes([]byte(g+"\n"), "half-frame")
				awaited = false
			} else {
				p.SendBytes([]byte(g+"\n"), "garbage")
			}
		case "half":
			if p.Kind == "inproc" {
				awaited = false
				break
			}
			p.SendBytes([]byte(`{"state":"authentica`), "half-frame")
			awaited = false
		case "notls":
			if p.NeedsTLS() {
				p.ResumeCleartext()
			}
			awaited = false
		case "close":
			p.Close()
			return
		case "reset":
			p.Reset()
			return
		case "wait":
			time.Sleep(time.Duration(st.WaitMs) * time.Millisecond)
			awaited = false
		}
		if st.NoWait {
			awaited = false
		}
		if awaited {
			p.AwaitFrame(n0, 3*time.Second)
		}
	}
	if p.NeedsTLS() {
		p.ResumeCleartext()
	}
}

// Remap rewrites the connection index of events recorded by the serving side (accept order,
// offset by 1000) to the index of the scripted peer that owns the same session id.
func (s *SUT) Remap(peers []*RawPeer) map[int]int {
	m := map[int]int{}
	for idx, p := range peers {
		if p == nil {
			continue
		}
		sid := ""
		for _, e := range s.h.Of(idx, "s-frame") {
			if id := fstr(e.Frame, "id"); id != "" && isSessionFrame(e.Frame) {
				sid = id
				break
			}
		}
		if k := s.connOf(sid); sid != "" && k >= 0 {
			m[k] = idx
		}
	}
	if len(peers) == 1 && len(s.Chans) == 1 {
		m[0] = 0
	}
	for i := range s.h.Ev {
		if c := s.h.Ev[i].Conn; c >= 1000 {
			if idx, ok := m[c-1000]; ok {
				s.h.Ev[i].Conn = idx
			}
		}
	}
	return m
}
