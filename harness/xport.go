package harness

import (
	"context"
	"fmt"
	"io"
	"net"
	"time"

	lime "github.com/takenet/lime-go"
	"verifsim/simnet"
	"verifsim/simrt"
)

// FaultSpec is the JSON-serialisable fault plan of one direction of a link.
type FaultSpec struct {
	FragMode  int      `json:"frag_mode"`  // 0 none, 1 listed sizes then unlimited, 2 one byte at a time, 3 random sizes from the run tape, 4 listed sizes cycled
	FragSizes []int    `json:"frag_sizes"` // for modes 1 and 4
	FragMax   int      `json:"frag_max"`   // for mode 3
	LatencyMs []int    `json:"latency_ms"` // per write, cycled
	Capacity  int      `json:"capacity"`   // send buffer bytes, 0 = unbounded
	Stalls    []StallS `json:"stalls"`
	CutAfter  int64    `json:"cut_after"` // <0 never
	CutKind   int      `json:"cut_kind"`  // 1 FIN, 2 RST, 3 black hole
}

// StallS is one delivery pause.
type StallS struct {
	AfterBytes int64 `json:"after_bytes"`
	ForMs      int   `json:"for_ms"`
}

// NoFaults is the empty plan.
func NoFaults() FaultSpec { return FaultSpec{CutAfter: -1} }

// Benign reports whether the plan only reshapes or delays the stream.
func (f FaultSpec) Benign() bool { return f.CutAfter < 0 || f.CutKind == 0 }

// Apply installs the spec on a direction. Lazy draws come from the run tape.
func (f FaultSpec) Apply(w *World, d *simnet.Dir) {
	p := simnet.DirPlan{CutAfter: -1}
	switch f.FragMode {
	case 1, 4:
		sizes := append([]int(nil), f.FragSizes...)
		i := 0
		cyc := f.FragMode == 4
		p.Chunk = func(avail int) int {
			if len(sizes) == 0 {
				return avail
			}
			if i >= len(sizes) {
				if !cyc {
					return avail
				}
				i = 0
			}
			s := sizes[i]
			i++
			if s < 1 {
				s = 1
			}
			return s
		}
	case 2:
		p.Chunk = func(avail int) int { return 1 }
	case 3:
		mx := f.FragMax
		if mx < 1 {
			mx = 16
		}
		p.Chunk = func(avail int) int {
			if avail <= 1 {
				return avail
			}
			lim := avail
			if lim > mx {
				lim = mx
			}
			return 1 + w.T.Draw(lim)
		}
	}
	if len(f.LatencyMs) > 0 {
		lat := append([]int(nil), f.LatencyMs...)
		i := 0
		p.Delay = func(n int) time.Duration {
			d := time.Duration(lat[i%len(lat)]) * time.Millisecond
			i++
			return d
		}
	}
	p.Capacity = f.Capacity
	for _, s := range f.Stalls {
		if s.ForMs > 0 {
			p.Stalls = append(p.Stalls, simnet.Stall{AfterBytes: s.AfterBytes, For: time.Duration(s.ForMs) * time.Millisecond})
		}
	}
	// stalls must be ordered by offset
	for i := 1; i < len(p.Stalls); i++ {
		for j := i; j > 0 && p.Stalls[j].AfterBytes < p.Stalls[j-1].AfterBytes; j-- {
			p.Stalls[j], p.Stalls[j-1] = p.Stalls[j-1], p.Stalls[j]
		}
	}
	if f.CutAfter >= 0 && f.CutKind > 0 {
		p.CutAfter = f.CutAfter
		p.CutKind = simnet.CutKind(f.CutKind)
	}
	d.Plan = p
}

// GenFaults draws a fault plan. streamLen is the expected size of the stream, used to place
// offsets; benignOnly excludes cuts.
func GenFaults(t *simrt.Tape, streamLen int, benignOnly bool) FaultSpec {
	f := NoFaults()
	if streamLen < 8 {
		streamLen = 8
	}
	switch t.Draw(6) {
	case 1:
		f.FragMode = 2
	case 2:
		f.FragMode = 3
		f.FragMax = []int{2, 7, 64, 1024}[t.Draw(4)]
	case 3:
		f.FragMode = 4
		for i := 1 + t.Draw(4); i > 0; i-- {
			f.FragSizes = append(f.FragSizes, 1+t.Draw(40))
		}
	case 4:
		f.FragMode = 1
		for i := 1 + t.Draw(3); i > 0; i-- {
			f.FragSizes = append(f.FragSizes, 1+t.Draw(streamLen))
		}
	}
	if t.Draw(3) == 0 {
		for i := 1 + t.Draw(3); i > 0; i-- {
			f.LatencyMs = append(f.LatencyMs, []int{0, 1, 20, 300, 2500, 6000}[t.Draw(6)])
		}
	}
	if t.Draw(3) == 0 {
		f.Capacity = []int{1, 3, 16, 64, 200, 1024}[t.Draw(6)]
	}
	if t.Draw(3) == 0 {
		for i := 1 + t.Draw(2); i > 0; i-- {
			f.Stalls = append(f.Stalls, StallS{AfterBytes: int64(t.Draw(streamLen)), ForMs: []int{10, 900, 4900, 5100, 12000}[t.Draw(5)]})
		}
	}
	if !benignOnly && t.Draw(3) == 0 {
		f.CutAfter = int64(t.Draw(streamLen + 1))
		f.CutKind = 1 + t.Draw(2)
	}
	return f
}

// ---- transport pairs ----

var nextPort = 20000

// Pair is two connected real lime transports and the simulated link between them.
type Pair struct {
	Client, Server lime.Transport
	Link           *simnet.Link
	Listener       lime.TransportListener
	Kind           string
}

// TCPPair connects a real tcpTransport client to a real TCP transport listener over a
// simulated link. faults[0] applies client->server, faults[1] server->client.
func TCPPair(w *World, port int, cliCfg, srvCfg *lime.TCPConfig, faults [2]FaultSpec) (*Pair, error) {
	addr := &net.TCPAddr{IP: net.IPv4(127, 0, 0, 1), Port: port}
	l := lime.NewTCPTransportListener(srvCfg)
	ctx, cancel := context.WithTimeout(context.Background(), time.Minute)
	defer cancel()
	if err := l.Listen(ctx, addr); err != nil {
		return nil, fmt.Errorf("listen: %w", err)
	}
	var link *simnet.Link
	prev := w.Net.OnLink
	w.Net.OnLink = func(lk *simnet.Link) {
		if link == nil && lk.Addr == addr.String() {
			link = lk
			faults[0].Apply(w, lk.AB)
			faults[1].Apply(w, lk.BA)
		} else if prev != nil {
			prev(lk)
		}
	}
	c, err := lime.DialTcp(ctx, addr, cliCfg)
	w.Net.OnLink = prev
	if err != nil {
		l.Close()
		return nil, fmt.Errorf("dial: %w", err)
	}
	s, err := l.Accept(ctx)
	if err != nil {
		l.Close()
		return nil, fmt.Errorf("accept: %w", err)
	}
	return &Pair{Client: c, Server: s, Link: link, Listener: l, Kind: "tcp"}, nil
}

// UpgradeTLS switches both ends of a TCP pair to TLS concurrently.
func (p *Pair) UpgradeTLS(timeout time.Duration) error {
	errs := make(chan error, 2)
	for _, tr := range []lime.Transport{p.Server, p.Client} {
		tr := tr
		go func() {
			ctx, cancel := context.WithTimeout(context.Background(), timeout)
			defer cancel()
			errs <- tr.SetEncryption(ctx, lime.SessionEncryptionTLS)
		}()
	}
	var first error
	for i := 0; i < 2; i++ {
		if err := <-errs; err != nil && first == nil {
			first = err
		}
	}
	return first
}

// SendEnv sends a generated envelope through a transport.
func SendEnv(ctx context.Context, t lime.Transport, e *Env) error {
	switch e.Kind {
	case KMessage:
		return t.Send(ctx, e.Msg)
	case KNotification:
		return t.Send(ctx, e.Not)
	case KRequest:
		return t.Send(ctx, e.Req)
	default:
		return t.Send(ctx, e.Resp)
	}
}

// EncodedLen is the number of bytes the TCP transport writes for e (JSON plus newline).
func EncodedLen(e *Env) int { return len(e.Canon) + 1 }

func tcpAddr(port int) *net.TCPAddr { return &net.TCPAddr{IP: net.IPv4(127, 0, 0, 1), Port: port} }

// discardTrace is a lime.TraceWriter that throws the trace away: configuring one changes how the
// TCP transport layers its readers and writers, nothing else.
type discardTrace struct{ send, recv io.Writer }

func newDiscardTrace() lime.TraceWriter { return &discardTrace{send: io.Discard, recv: io.Discard} }

func (d *discardTrace) SendWriter() *io.Writer    { return &d.send }
func (d *discardTrace) ReceiveWriter() *io.Writer { return &d.recv }
