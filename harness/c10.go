package harness

import (
	"fmt"
	"strings"
	"time"

	"verifsim/simrt"
)

// C10: a server whose encryption options exclude "none", on a connection that can provide one
// of them, never requests or accepts credentials, nor establishes, while still unencrypted.

func genPlanC10(t *simrt.Tape, tier string) interface{} {
	p := genPlanSrv(t, tier).(*PlanSrv)
	// premise group (3 of 4 runs) and control group (premise false)
	if t.Draw(4) != 0 {
		p.Conf.Enc = []string{"tls"}
		p.Conf.Transport = []string{"tcp", "tcp", "tcp", "ws"}[t.Draw(4)]
		p.Conf.TLSCap = true
	}
	if len(p.Scripts) > 1 {
		p.Scripts = p.Scripts[:1]
	}
	// cooperative clients more often than not
	if t.Draw(2) == 0 {
		sc := []Step{}
		for i := 3 + t.Draw(4); i > 0; i-- {
			sc = append(sc, Step{Op: "auto", Choice: t.Draw(4), From: t.Draw(3)})
		}
		if t.Draw(3) == 0 {
			// a client that skips or garbles the negotiation once
			sc[1+t.Draw(2)] = Step{Op: "session", State: []string{"same", "authenticating", "negotiating"}[t.Draw(3)], Scheme: allSchemes[t.Draw(5)], Enc: []string{"", "none", "tls"}[t.Draw(3)], Comp: []string{"", "none"}[t.Draw(2)]}
		}
		p.Scripts[0] = sc
	}
	return p
}

func premiseC10(c SrvConf) bool {
	if containsS(c.Enc, "none") {
		return false
	}
	_, sup := c.Supported()
	if c.Transport == "tcp" && !c.TLSCap {
		return false // no TLS configuration: the connection cannot provide tls
	}
	return len(intersectS(c.Enc, sup)) > 0
}

func runC10(w *World, pi interface{}) {
	p := pi.(*PlanSrv)
	h, sut, peers := runSrvScenario(w, p, nil)
	if sut == nil {
		return
	}
	defer func() {
		for _, pr := range peers {
			if pr != nil && !pr.RemoteClosed().IsSet() {
				pr.Close()
			}
		}
		sut.Shutdown()
	}()
	if !premiseC10(p.Conf) {
		w.Count("control-group")
		return
	}
	w.Count("premise-group")
	sig := func(what string) string {
		return fmt.Sprintf("%s transport=%s full=%v", what, p.Conf.Transport, p.Conf.Full)
	}
	for _, e := range h.Ev {
		switch e.Kind {
		case "s-frame":
			st := fstr(e.Frame, "state")
			if e.Note == "cleartext" && st == "authenticating" {
				w.Violate("C10.credentials-requested-over-cleartext", sig("auth-request"), "the server (encryption options %v) sent an authentication request over the unencrypted connection\n%s", p.Conf.Enc, h.Dump(40))
			}
			if e.Note == "cleartext" && st == "established" {
				w.Violate("C10.established-over-cleartext", sig("established"), "the server (encryption options %v) established the session over the unencrypted connection\n%s", p.Conf.Enc, h.Dump(40))
			}
		case "auth":
			if strings.Contains(e.Note, "enc=none") {
				w.Violate("C10.credentials-accepted-over-cleartext", sig("auth-callback"), "the authentication callback ran while the connection was unencrypted (encryption options %v)\n%s", p.Conf.Enc, h.Dump(40))
			}
		case "estab-return":
			if (fstr(e.Frame, "state") == "established" || e.Frame["established"] == true) && fstr(e.Frame, "enc") == "none" {
				w.Violate("C10.established-over-cleartext", sig("estab-return"), "EstablishSession returned an established session on an unencrypted transport (encryption options %v)\n%s", p.Conf.Enc, h.Dump(40))
			}
		}
	}
}

func init() {
	register(&PropDef{
		ID:     "C10",
		New:    func() interface{} { return &PlanSrv{} },
		Gen:    genPlanC10,
		Run:    runC10,
		MaxSim: 2 * time.Hour,
		Rule: "C03's plan space restricted, in 3 of 4 runs, to servers whose encryption list is [tls] on connections able to provide it (tcp with a TLS configuration, wss) against cooperative scripted clients (every option/scheme choice) and clients that skip or garble the negotiation; " +
			"the remaining runs are the control group (premise false) that must stay silent; non-trivial = a scripted client connected; distinct = distinct (plan JSON, event-log hash)",
	})
}
