package harness

import (
	"context"
	"encoding/json"
	"errors"
	"fmt"
	"strings"
	"time"

	lime "github.com/takenet/lime-go"
	"verifsim/simnet"
	"verifsim/simrt"
)

// PlanC18 closes a serving Server at a chosen moment.
type PlanC18 struct {
	Conf      FullConf  `json:"conf"`
	Clients   []CliSpec `json:"clients"`
	StartMs   []int     `json:"start_ms"` // when each client starts dialling
	NMsg      []int     `json:"n_msg"`    // messages each client sends once established
	Raw       []int     `json:"raw"`      // scripted raw tcp clients that fail their handshake: start times
	CloseAtMs int       `json:"close_at_ms"`
	LatencyMs int       `json:"latency_ms"` // per write on every link, spreads handshakes over time
	// AbortMs[i] > 0: client i resets its connection (RST) that long after its session was established
	// and its messages were sent; its session is established all the same and is owed its callbacks
	AbortMs []int `json:"abort_ms,omitempty"`
	// Again: after the first serve/close cycle the same Server is served and closed once more
	Again bool `json:"again,omitempty"`
	// HalfClosers: start times of scripted tcp clients that go through a correct guest handshake
	// and close their sending direction right behind their credentials (they have nothing more to
	// say), then read on: a session the server told them is established is owed its callbacks
	HalfClosers []int `json:"half_closers,omitempty"`
}

func genC18(t *simrt.Tape, tier string) interface{} {
	p := &PlanC18{}
	p.Conf = GenFullConf(t, 1+t.Draw(3))
	p.LatencyMs = []int{0, 0, 3, 40}[t.Draw(4)]
	span := 1 + 40*p.LatencyMs
	for i := t.Draw(6); i > 0; i-- {
		c := GenCliSpec(t, len(p.Conf.Listeners))
		c.High = false
		FixSelector(p.Conf.Listeners[c.L], &c)
		p.Clients = append(p.Clients, c)
		p.StartMs = append(p.StartMs, t.Draw(span+1))
		p.NMsg = append(p.NMsg, t.Draw(5))
		ab := 0
		if t.Draw(6) == 0 {
			ab = 1 + t.Draw(span+1)
		}
		p.AbortMs = append(p.AbortMs, ab)
	}
	for i := t.Draw(3); i > 0; i-- {
		p.Raw = append(p.Raw, t.Draw(span+1))
		if t.Draw(2) == 0 {
			p.HalfClosers = append(p.HalfClosers, t.Draw(span+1))
		}
	}
	p.Again = t.Draw(4) == 0
	p.CloseAtMs = t.Draw(2*span + 2)
	if t.Draw(4) == 0 {
		p.CloseAtMs = 0
	}
	return p
}

func runC18(w *World, pi interface{}) {
	p := pi.(*PlanC18)
	if len(p.Conf.Listeners) == 0 {
		return
	}
	if len(p.Conf.Listeners) > 3 {
		p.Conf.Listeners = p.Conf.Listeners[:3]
	}
	if len(p.Clients) > 6 {
		p.Clients = p.Clients[:6]
	}
	handlerSeq := map[string]int{} // session id -> first handler invocation seq
	var f *Full
	f, err := StartFull(w, p.Conf, 7400, func(b *lime.ServerBuilder, f *Full) {
		b.MessagesHandlerFunc(func(ctx context.Context, m *lime.Message, s lime.Sender) error {
			sid, _ := lime.ContextSessionID(ctx)
			e := f.H.Add(-1, "handler", map[string]interface{}{"session": sid, "id": m.ID}, "", "")
			if _, ok := handlerSeq[sid]; !ok {
				handlerSeq[sid] = e.Seq
			}
			return nil
		})
	})
	if err != nil {
		return
	}
	if p.LatencyMs > 0 {
		w.Net.OnLink = func(lk *simnet.Link) {
			fs := NoFaults()
			fs.LatencyMs = []int{p.LatencyMs}
			fs.Apply(w, lk.AB)
			fs.Apply(w, lk.BA)
		}
	}
	w.Armed = true
	type cliState struct {
		established bool
		sid         string
		sawFinished bool
		err         error
		done        *Flag
		ch          *lime.ClientChannel
		aborted     bool
	}
	clis := make([]*cliState, len(p.Clients))
	for i := range p.Clients {
		i := i
		cs := &cliState{done: NewFlag()}
		clis[i] = cs
		go func() {
			defer cs.done.Set()
			if i < len(p.StartMs) && p.StartMs[i] > 0 {
				time.Sleep(time.Duration(p.StartMs[i]) * time.Millisecond)
			}
			ctx, cancel := context.WithTimeout(context.Background(), 2*time.Minute)
			defer cancel()
			ch, ses, err := f.ConnectChannel(ctx, p.Clients[i], i)
			cs.ch = ch
			if err != nil || ses == nil || ses.State != lime.SessionStateEstablished {
				cs.err = err
				if ch != nil {
					ch.Close()
				}
				return
			}
			cs.established = true
			cs.sid = ses.ID
			w.Tracef("client %d: established %s", i, ses.ID)
			n := 0
			if i < len(p.NMsg) {
				n = p.NMsg[i]
			}
			for j := 0; j < n; j++ {
				txt := lime.TextDocument(fmt.Sprintf("m%d", j))
				m := &lime.Message{}
				m.SetContent(&txt).SetID(fmt.Sprintf("c%d.%d", i, j))
				sctx, scancel := context.WithTimeout(context.Background(), 30*time.Second)
				err := ch.SendMessage(sctx, m)
				scancel()
				if err != nil {
					break
				}
			}
			if i < len(p.AbortMs) && p.AbortMs[i] > 0 {
				time.Sleep(time.Duration(p.AbortMs[i]) * time.Millisecond)
				cs.aborted = true
				w.Count("client-reset-its-connection")
				if lk := w.LinkOfLocal(localAddrOf(f.CliTransports[i])); lk != nil {
					lk.Cut(simnet.CutRST)
				} else {
					ch.Close()
				}
				return
			}
			// keep consuming the inbound streams until the session ends
			go func() {
				for range ch.MsgChan() {
				}
			}()
			go func() {
				for range ch.NotChan() {
				}
			}()
			go func() {
				for range ch.ReqCmdChan() {
				}
			}()
			go func() {
				for range ch.RespCmdChan() {
				}
			}()
			// wait for the end of the session
			w.Eventually(10*time.Minute, func() bool {
				st := ch.State()
				return st == lime.SessionStateFinished || st == lime.SessionStateFailed
			})
			cs.sawFinished = ch.State() == lime.SessionStateFinished
			w.Tracef("client %d: end of session observed: state=%s", i, ch.State())
			ch.Close()
		}()
	}
	for _, at := range p.Raw {
		at := at
		go func() {
			time.Sleep(time.Duration(at) * time.Millisecond)
			li := 0
			for i, k := range p.Conf.Listeners {
				if k == "tcp" || k == "tcptls" {
					li = i
				}
			}
			if k := p.Conf.Listeners[li]; k != "tcp" && k != "tcptls" {
				return
			}
			c, err := w.Net.Dial(context.Background(), tcpAddr(f.BasePort+li).String())
			if err != nil {
				return
			}
			c.Write([]byte("{\"state\":\"established\"}\n"))
			buf := make([]byte, 512)
			c.SetReadDeadline(time.Now().Add(5 * time.Minute))
			for {
				if _, err := c.Read(buf); err != nil {
					break
				}
			}
			c.Close()
		}()
	}
	var halfEst []string
	var halfDone []*Flag
	for n, at := range p.HalfClosers {
		n, at := n, at
		fl := NewFlag()
		halfDone = append(halfDone, fl)
		go func() {
			defer fl.Set()
			time.Sleep(time.Duration(at) * time.Millisecond)
			li := -1
			for i, k := range p.Conf.Listeners {
				if k == "tcp" || k == "tcptls" {
					li = i
				}
			}
			if li < 0 {
				return
			}
			c, err := w.Net.Dial(context.Background(), tcpAddr(f.BasePort+li).String())
			if err != nil {
				return
			}
			defer c.Close()
			c.SetReadDeadline(time.Now().Add(10 * time.Minute))
			c.Write([]byte("{\"state\":\"new\"}\n"))
			dec := json.NewDecoder(c)
			for {
				var m map[string]interface{}
				if err := dec.Decode(&m); err != nil {
					return
				}
				id := fstr(m, "id")
				switch fstr(m, "state") {
				case "negotiating":
					if m["encryptionOptions"] != nil || m["compressionOptions"] != nil {
						fmt.Fprintf(c, "{\"state\":\"negotiating\",\"id\":%q,\"compression\":\"none\",\"encryption\":\"none\"}\n", id)
					}
				case "authenticating":
					fmt.Fprintf(c, "{\"state\":\"authenticating\",\"id\":%q,\"from\":\"00000000-0000-4000-8000-0000000009%02d@cli.org/half\",\"scheme\":\"guest\",\"authentication\":{}}\n", id, n)
					c.CloseWrite()
					w.Count("half-closed-behind-credentials")
				case "established":
					halfEst = append(halfEst, id)
				case "finished", "failed":
					return
				}
			}
		}()
	}
	// the closer
	time.Sleep(time.Duration(p.CloseAtMs) * time.Millisecond)
	closedAt := len(f.H.Ev)
	cerr := f.Server.Close()
	if cerr != nil && strings.Contains(cerr.Error(), "server not listening") {
		// Close raced ahead of ListenAndServe's own start: let it start, then close again
		w.Count("close-before-start")
		time.Sleep(50 * time.Millisecond)
		f.Server.Close()
	}
	sig := func(what string) string { return what }
	if !f.ServeRet.WaitFor(2 * time.Minute) {
		w.Violate("C18.serve-did-not-return", sig("ListenAndServe"), "ListenAndServe did not return within 2 simulated minutes of Close (Close error: %v)", cerr)
	} else if !errors.Is(f.ServeErr, lime.ErrServerClosed) {
		w.Violate("C18.serve-error-not-server-closed", sig("ListenAndServe"), "ListenAndServe returned %v instead of ErrServerClosed", f.ServeErr)
	}
	if f.ServeRet.IsSet() {
		for i, k := range p.Conf.Listeners {
			if k == "inproc" {
				if t, err := lime.DialInProcess(f.InProc[i], 1); err == nil {
					t.Close()
					w.Violate("C18.listener-still-accepting", sig("inproc"), "in-process listener %d still accepts dials after the server was closed", i)
				}
				continue
			}
			if w.Net.Listening(tcpAddr(f.BasePort + i).String()) {
				w.Violate("C18.listener-still-accepting", sig(k), "listener %d (%s) is still listening after ListenAndServe returned", i, k)
			}
		}
	}
	for _, cs := range clis {
		cs.done.WaitFor(15 * time.Minute)
	}
	_ = closedAt
	// give the server's session goroutines the drain period to finish their sessions
	time.Sleep(30 * time.Second)
	// callbacks
	est := map[string][]HEvent{}
	fin := map[string][]HEvent{}
	for _, e := range f.H.Ev {
		switch e.Kind {
		case "cb-established":
			est[fstr(e.Frame, "id")] = append(est[fstr(e.Frame, "id")], e)
			if fstr(e.Frame, "state") != "established" && e.Frame["established"] != true {
				w.Violate("C18.established-callback-for-unestablished-session", sig("state="+fstr(e.Frame, "state")), "the Established callback fired for session %s whose state was %q\n%s", fstr(e.Frame, "id"), fstr(e.Frame, "state"), f.H.Dump(40))
			}
		case "cb-finished":
			fin[fstr(e.Frame, "id")] = append(fin[fstr(e.Frame, "id")], e)
		}
	}
	for _, id := range sortedIDs(est) {
		es := est[id]
		if len(es) > 1 {
			w.Violate("C18.established-callback-twice", sig("established"), "Established fired %d times for session %s", len(es), id)
		}
		reached := fstr(es[0].Frame, "state") == "established" || es[0].Frame["established"] == true
		if reached {
			if len(fin[id]) != 1 {
				w.Violate("C18.finished-callback-count", sig(fmt.Sprintf("finished x%d", len(fin[id]))), "Finished fired %d times for established session %s\n%s", len(fin[id]), id, f.H.Dump(40))
			} else if fin[id][0].Seq < es[0].Seq {
				w.Violate("C18.finished-before-established", sig("order"), "Finished fired before Established for session %s", id)
			}
		}
		if hs, ok := handlerSeq[id]; ok && hs < es[0].Seq {
			w.Violate("C18.handler-before-established-callback", sig("order"), "a handler ran for session %s before its Established callback", id)
		}
	}
	for _, fl := range halfDone {
		fl.WaitFor(time.Minute)
	}
	for _, id := range halfEst {
		if len(est[id]) == 0 {
			w.Violate("C18.no-established-callback", sig("half-closed client"), "a client that closed its sending direction behind its credentials was told that session %s is established, but the server's Established callback never fired for it\n%s", id, f.H.Dump(40))
		}
	}
	for _, id := range sortedIDs(fin) {
		if len(est[id]) == 0 {
			w.Violate("C18.finished-without-established", sig("finished"), "Finished fired for session %s that never had an Established callback", id)
		}
	}
	for i, cs := range clis {
		if !cs.established {
			continue
		}
		if len(est[cs.sid]) == 0 {
			w.Violate("C18.no-established-callback", sig("client-established"), "client %d established session %s but the server's Established callback never fired for it\n%s", i, cs.sid, f.H.Dump(40))
		}
		if !cs.sawFinished && !cs.aborted {
			st := lime.SessionState("")
			if cs.ch != nil {
				st = cs.ch.State()
			}
			w.Violate("C18.client-did-not-see-finished", sig("transport="+p.Conf.Listeners[p.Clients[i].L]), "client %d (session %s, %s) did not observe a finished session after Server.Close (client state %q)", i, cs.sid, p.Conf.Listeners[p.Clients[i].L], st)
		}
	}
	// census: nothing of the server may be left behind
	var left []string
	for _, ti := range simrt.Census() {
		if strings.HasPrefix(ti.SpawnSite, "server.go") || strings.HasPrefix(ti.SpawnSite, "channel.go") || strings.HasPrefix(ti.SpawnSite, "tcp_transport.go") ||
			strings.HasPrefix(ti.SpawnSite, "websocket_transport.go") {
			left = append(left, fmt.Sprintf("%s(%s at %s, %s)", ti.ID, ti.SpawnSite, ti.Site, ti.State))
		}
	}
	if len(left) > 0 {
		site := left[0]
		if i := strings.Index(site, "("); i >= 0 {
			site = site[i:]
		}
		if j := strings.Index(site, " at "); j >= 0 {
			site = site[:j]
		}
		w.Violate("C18.serving-goroutines-left", sig(site), "%d library goroutines are still alive 30 s after the server was closed and all clients left: %v", len(left), left)
	}
	// ---- a second life of the same Server: serve, one client, close ----
	if p.Again && f.ServeRet.IsSet() && !w.Violated() {
		w.Count("served-again")
		ret2 := NewFlag()
		var err2 error
		go func() {
			err2 = f.Server.ListenAndServe()
			ret2.Set()
		}()
		time.Sleep(100 * time.Millisecond)
		if ret2.IsSet() {
			// not every listener kind can be listened on again (the in-process one cannot): a second
			// serve that refuses to start is outside the property; closing the server again must
			// still be orderly (no panic)
			w.Count("second-serve-refused")
			func() {
				defer func() {
					if r := recover(); r != nil {
						w.Violate("C18.panic", "panic in Server.Close", "Server.Close panicked on a server whose second ListenAndServe had returned %v: %v", err2, r)
					}
				}()
				_ = f.Server.Close()
			}()
			return
		}
		spec := CliSpec{L: 0, Auth: "guest", Buf: 1, IPBuf: 1}
		FixSelector(p.Conf.Listeners[0], &spec)
		cctx, ccancel := context.WithTimeout(context.Background(), 2*time.Minute)
		ch, ses, cerr2 := f.ConnectChannel(cctx, spec, 90)
		ccancel()
		if cerr2 != nil || ses == nil || ses.State != lime.SessionStateEstablished {
			w.Count("second-serve-no-session")
			cerr2 = errors.New("no session")
		} else {
			go func() {
				for range ch.MsgChan() {
				}
			}()
		}
		closeErr := f.Server.Close()
		if !ret2.WaitFor(2 * time.Minute) {
			w.Violate("C18.serve-did-not-return", sig("second ListenAndServe"), "the second ListenAndServe did not return within 2 simulated minutes of Close (Close error: %v)", closeErr)
		} else if !errors.Is(err2, lime.ErrServerClosed) {
			w.Violate("C18.serve-error-not-server-closed", sig("second ListenAndServe"), "the second ListenAndServe returned %v instead of ErrServerClosed", err2)
		}
		if ch != nil && cerr2 == nil {
			if !w.Eventually(time.Minute, func() bool { return ch.State() == lime.SessionStateFinished || ch.State() == lime.SessionStateFailed }) || ch.State() != lime.SessionStateFinished {
				w.Violate("C18.client-did-not-see-finished", sig("second life transport="+p.Conf.Listeners[0]), "the client of the server's second life did not observe a finished session after Close (state %q)", ch.State())
			}
			ch.Close()
		}
	}
}

func init() {
	register(&PropDef{
		ID:        "C18",
		New:       func() interface{} { return &PlanC18{} },
		Gen:       genC18,
		Run:       runC18,
		MaxSim:    2 * time.Hour,
		PanicRule: "C18.panic",
		Rule: "plans = (server with 1-3 listeners of mixed kinds, 0-5 real ClientChannel clients with start offsets and traffic, 0-2 raw clients that fail their handshake, clients that reset their established connection, per-write link latency to spread handshakes over time, " +
			"the instant Server.Close is called: from before ListenAndServe has started, through mid-accept and mid-handshake, to established sessions with traffic; in a quarter of the runs the same Server is then served, used by one client and closed a second time); select poll order at the queue selects is an ordinary tape choice; " +
			"scripted clients that half-close right behind their credentials and read on; non-trivial = the server was started; distinct = distinct (plan JSON, event-log hash)",
	})
}

func sortedIDs(m map[string][]HEvent) []string {
	ks := make([]string, 0, len(m))
	for k := range m {
		ks = append(ks, k)
	}
	sortStrings(ks)
	return ks
}
