package harness

import (
	"fmt"
	"strings"
	"time"
)

// The reference model of the server side of the session handshake, written from the protocol
// description (README "Session", property C07), not from the implementation. It is walked
// over the recorded history of one connection: client inputs in order, server session
// envelopes in order. For every input it knows which emissions are acceptable.

const (
	phAwaitNew = iota
	phOffered
	phAuthWait
	phEstablished
	phDone
)

var stepOfState = map[string]int{"new": 0, "negotiating": 1, "authenticating": 2, "established": 3, "finishing": 4, "finished": 5, "failed": 6}

func setEq(a, b []string) bool {
	if len(a) != len(b) {
		return false
	}
	for _, x := range a {
		if !containsS(b, x) {
			return false
		}
	}
	return true
}

func oracleC07(w *World, p *PlanSrv, h *History, sut *SUT, peers []*RawPeer) {
	supComp, supEnc := p.Conf.Supported()
	negComp := intersectS(p.Conf.Comp, supComp)
	negEnc := intersectS(p.Conf.Enc, supEnc)
	// a TCP listener without a TLS configuration still advertises tls; whether that counts as
	// "supported by the connection" is left open: accept the offer with or without it
	negEncAlt := negEnc
	if p.Conf.Transport == "tcp" && !p.Conf.TLSCap {
		negEncAlt = filterOut(negEnc, "tls")
	}
	offered := sut.Conf.Schemes
	faulty := !p.Faults.Benign() || !p.Back.Benign()
	for k, peer := range peers {
		if peer == nil {
			continue
		}
		sig := func(what string) string {
			return fmt.Sprintf("%s transport=%s full=%v", what, p.Conf.Transport, p.Conf.Full)
		}
		bad := func(rule, what, format string, args ...interface{}) {
			w.Violate(rule, sig(what), "connection %d: %s\n%s", k, fmt.Sprintf(format, args...), h.Dump(70))
		}
		var evs []HEvent
		for _, e := range h.Ev {
			if e.Conn == k || (e.Conn == -1 && len(peers) == 1) {
				evs = append(evs, e)
			}
		}
		// ---- invariants over every server session envelope ----
		sid := ""
		var sframes []HEvent
		terminalAt := -1
		for _, e := range evs {
			if e.Kind != "s-frame" {
				continue
			}
			if !isSessionFrame(e.Frame) {
				if terminalAt >= 0 {
					bad("C07.sent-after-terminal", "data", "the server sent %s after its terminal session envelope", short(canonJSON(e.Frame), 120))
				}
				// only session envelopes, in protocol order, until the established one has gone out
				est := false
				for _, f := range sframes {
					if fstr(f.Frame, "state") == "established" {
						est = true
					}
				}
				if !est {
					bad("C07.emission-out-of-order", "data-before-established", "the server emitted %s before its established session envelope", short(canonJSON(e.Frame), 120))
				}
				continue
			}
			if terminalAt >= 0 {
				bad("C07.sent-after-terminal", "session", "the server sent session envelope %s after its terminal one", short(canonJSON(e.Frame), 120))
			}
			sframes = append(sframes, e)
			id := fstr(e.Frame, "id")
			if id == "" {
				bad("C07.missing-session-id", fstr(e.Frame, "state"), "server session envelope without an id: %s", canonJSON(e.Frame))
			} else if sid == "" {
				sid = id
			} else if id != sid {
				bad("C07.session-id-changed", fstr(e.Frame, "state"), "server session envelopes carry different ids: %q then %q", sid, id)
			}
			if !p.Conf.Full && id != "" && sut.connOf(id) < 0 {
				bad("C07.session-id-not-assigned-one", fstr(e.Frame, "state"), "server session envelope carries id %q, which no connection was assigned (%v)", id, sut.SIDs)
			}
			if from := fstr(e.Frame, "from"); from != serverNode.String() {
				bad("C07.wrong-sender", fstr(e.Frame, "state"), "server session envelope has from=%q, the server node is %q", from, serverNode.String())
			}
			st := fstr(e.Frame, "state")
			if st == "failed" {
				if _, ok := e.Frame["reason"].(map[string]interface{}); !ok {
					bad("C07.failed-without-reason", "failed", "failed session envelope without a reason: %s", canonJSON(e.Frame))
				}
			}
			if st == "failed" || st == "finished" {
				terminalAt = e.Seq
			}
		}
		// protocol order of the emitted states
		prev := -1
		for _, e := range sframes {
			st := stepOfState[fstr(e.Frame, "state")]
			if st < prev {
				bad("C07.emission-out-of-order", fstr(e.Frame, "state"), "server emitted state %q after a later state", fstr(e.Frame, "state"))
			}
			prev = st
		}
		// visible state never moves backwards (bare channels)
		prevObs := -1
		for _, e := range evs {
			if e.Kind == "state-obs" {
				st := stepOfState[fstr(e.Frame, "state")]
				if st < prevObs {
					bad("C07.state-regressed", fstr(e.Frame, "state"), "the server channel's visible state went backwards to %q", fstr(e.Frame, "state"))
				}
				prevObs = st
			}
		}
		// ---- model walk ----
		phase := phAwaitNew
		fi := 0 // next unconsumed server session frame
		poisoned := false
		clientGone := false
		tlsOK := false
		for _, e := range evs {
			if e.Kind == "tls" && e.Note == "upgraded" {
				tlsOK = true
			}
			if e.Kind == "c-close" {
				// a client that hangs up may miss the answer to its last input
				clientGone = true
			}
		}
		if len(negComp) == 0 {
			// the configuration leaves no compression the connection supports: the protocol text
			// does not say what such a server does
			continue
		}
		next := func() *HEvent {
			if fi < len(sframes) {
				return &sframes[fi]
			}
			return nil
		}
		// the k-th callback invocation answers the k-th authenticating input the server consumed
		var authEvs []HEvent
		for _, e := range evs {
			if e.Kind == "auth" {
				authEvs = append(authEvs, e)
			}
		}
		authIdx := 0
		var curIn map[string]interface{}
		authAfter := func(seq int) *HEvent {
			if authIdx >= len(authEvs) || authEvs[authIdx].Seq < seq {
				return nil
			}
			a := authEvs[authIdx]
			if curIn != nil && fstr(a.Frame, "identity") != identityOf(fstr(curIn, "from")) {
				return nil
			}
			authIdx++
			return &a
		}
		regAfter := func(seq int) *HEvent {
			for _, e := range evs {
				if e.Seq <= seq {
					continue
				}
				if e.Kind == "reg" {
					ev := e
					return &ev
				}
				if e.Kind == "s-frame" && isSessionFrame(e.Frame) {
					return nil
				}
			}
			return nil
		}
		expectFailed := func(in HEvent, why string, strict bool) {
			f := next()
			if f == nil {
				// the in-process transport can lose a terminal envelope to its own Close (C13's subject)
				// (nor is an answer owed once the server itself has been closed: its context is
				// cancelled, a failed session may or may not still go out before the connection closes)
				serverClosed := len(h.Of(-1, "server-close-called")) > 0
				if strict && !faulty && !clientGone && !poisoned && peer.Kind != "inproc" && !serverClosed {
					bad("C07.violation-not-answered", why, "client violation (%s: %s) was not answered with a failed session", why, short(canonJSON(in.Frame), 160))
				}
				phase = phDone
				return
			}
			if fstr(f.Frame, "state") != "failed" {
				bad("C07.violation-not-failed", why, "client violation (%s: %s) was answered with %s instead of a failed session", why, short(canonJSON(in.Frame), 160), short(canonJSON(f.Frame), 160))
			}
			fi++
			phase = phDone
		}
		latitude := func() {
			// non-session / undecodable input or a callback error: failed+close or just close
			if f := next(); f != nil && fstr(f.Frame, "state") == "failed" {
				fi++
			}
			phase = phDone
		}
		for _, e := range evs {
			if phase == phDone {
				break
			}
			switch e.Kind {
			case "c-close":
				clientGone = true
			case "tls":
				if e.Note == "upgraded" {
					tlsOK = true
				}
			case "c-bytes":
				if e.Note == "half-frame" {
					poisoned = true
					continue
				}
				latitude()
			case "c-send":
				if poisoned {
					latitude()
					continue
				}
				in := e.Frame
				curIn = in
				if !isSessionFrame(in) {
					if phase == phEstablished {
						continue
					}
					latitude()
					continue
				}
				st := fstr(in, "state")
				if _, known := stepOfState[st]; !known {
					latitude()
					continue
				}
				if _, has := in["authentication"]; has && !containsS(allSchemes, fstr(in, "scheme")) {
					// an authentication object under a missing or unknown scheme cannot be decoded
					latitude()
					continue
				}
				id := fstr(in, "id")
				switch phase {
				case phAwaitNew:
					if st != "new" || id != "" {
						expectFailed(e, "first envelope not a fresh new session", true)
						continue
					}
					f := next()
					if f == nil {
						continue
					}
					switch fstr(f.Frame, "state") {
					case "negotiating":
						co, eo := fstrs(f.Frame, "compressionOptions"), fstrs(f.Frame, "encryptionOptions")
						if !setEq(co, negComp) || !(setEq(eo, negEnc) || setEq(eo, negEncAlt)) {
							bad("C07.offer-not-configured-and-supported", "negotiating", "negotiation offer %v / %v differs from configured-and-supported %v / %v", co, eo, negComp, negEnc)
						}
						fi++
						phase = phOffered
					case "authenticating":
						if so := fstrs(f.Frame, "schemeOptions"); !setEq(so, offered) {
							bad("C07.scheme-offer-differs", "authenticating", "authentication request lists %v, configured %v", so, offered)
						}
						fi++
						phase = phAuthWait
					case "failed":
						// a server may refuse any session
						fi++
						phase = phDone
					default:
						bad("C07.unexpected-reply-to-new", fstr(f.Frame, "state"), "new session answered with %s", short(canonJSON(f.Frame), 160))
						fi++
						phase = phDone
					}
				case phOffered:
					comp, enc := fstr(in, "compression"), fstr(in, "encryption")
					valid := st == "negotiating" && id == sid && containsS(negComp, comp) && containsS(negEnc, enc)
					if !valid {
						why := "option that was not offered"
						if st != "negotiating" {
							why = "out-of-order state"
						} else if id != sid {
							why = "wrong id echoed"
						}
						expectFailed(e, why, true)
						continue
					}
					f := next()
					if f == nil {
						continue
					}
					if fstr(f.Frame, "state") != "negotiating" || fstr(f.Frame, "compression") != comp || fstr(f.Frame, "encryption") != enc {
						if fstr(f.Frame, "state") == "failed" {
							fi++
							phase = phDone
							continue
						}
						bad("C07.confirmation-differs", "negotiating", "a valid selection %s/%s was answered with %s", comp, enc, short(canonJSON(f.Frame), 160))
						fi++
						phase = phDone
						continue
					}
					fi++
					f = next()
					if f == nil {
						// e.g. the TLS upgrade did not complete
						phase = phDone
						continue
					}
					if enc == "tls" && !tlsOK && p.Conf.Transport == "tcp" {
						// the scripted client never completed the TLS handshake; nothing more may be readable in cleartext
						if isSessionFrame(f.Frame) {
							bad("C07.cleartext-after-tls-confirmation", "tls", "server sent %s in cleartext after confirming TLS", short(canonJSON(f.Frame), 160))
						}
						phase = phDone
						continue
					}
					switch fstr(f.Frame, "state") {
					case "authenticating":
						if so := fstrs(f.Frame, "schemeOptions"); !setEq(so, offered) {
							bad("C07.scheme-offer-differs", "authenticating", "authentication request lists %v, configured %v", so, offered)
						}
						fi++
						phase = phAuthWait
					case "failed":
						fi++
						phase = phDone
					default:
						bad("C07.emission-out-of-order", fstr(f.Frame, "state"), "after the negotiation confirmation the server sent %s", short(canonJSON(f.Frame), 160))
						fi++
						phase = phDone
					}
				case phAuthWait:
					scheme := fstr(in, "scheme")
					valid := st == "authenticating" && id == sid && containsS(offered, scheme)
					if !valid {
						why := "scheme that was not offered"
						if st != "authenticating" {
							why = "out-of-order state"
						} else if id != sid {
							why = "wrong id echoed"
						}
						expectFailed(e, why, true)
						continue
					}
					au := authAfter(e.Seq)
					f := next()
					if au == nil {
						_, hasAuthObj := in["authentication"]
						guestFull := p.Conf.Full && scheme == "guest" && hasAuthObj
						if guestFull {
							name := identityOf(fstr(in, "from"))
							if i := strings.Index(name, "@"); i >= 0 {
								name = name[:i]
							}
							if uuidRe.MatchString(name) {
								if f != nil && fstr(f.Frame, "state") == "established" {
									fi++
									phase = phEstablished
									continue
								}
							} else {
								expectFailed(e, "rejected credentials", true)
								continue
							}
						}
						// the callback did not run (decode trouble, builder-level error): only failing is acceptable
						if f != nil && fstr(f.Frame, "state") != "failed" {
							bad("C07.progress-without-authentication", fstr(f.Frame, "state"), "the server answered an authentication attempt with %s although its authentication callback did not run", short(canonJSON(f.Frame), 160))
							fi++
						} else if f != nil {
							fi++
						}
						phase = phDone
						continue
					}
					switch fstr(au.Frame, "outcome") {
					case "member", "authority":
						rg := regAfter(au.Seq)
						if rg == nil || rg.Note != "" {
							latitude()
							continue
						}
						if f == nil {
							continue
						}
						if fstr(f.Frame, "state") != "established" {
							if fstr(f.Frame, "state") == "failed" {
								fi++
								phase = phDone
								continue
							}
							bad("C07.unexpected-after-authentication", fstr(f.Frame, "state"), "successful authentication and registration were followed by %s", short(canonJSON(f.Frame), 160))
							fi++
							phase = phDone
							continue
						}
						if to := fstr(f.Frame, "to"); to != fstr(rg.Frame, "node") {
							bad("C07.established-to-differs", "established", "established envelope addressed to %q, registration supplied %q", to, fstr(rg.Frame, "node"))
						}
						fi++
						phase = phEstablished
					case "roundtrip":
						if f == nil {
							continue
						}
						if fstr(f.Frame, "state") == "failed" {
							fi++
							phase = phDone
							continue
						}
						if fstr(f.Frame, "state") != "authenticating" || f.Frame["authentication"] == nil {
							bad("C07.roundtrip-not-relayed", fstr(f.Frame, "state"), "a round-trip result was followed by %s", short(canonJSON(f.Frame), 160))
							phase = phDone
						}
						fi++
					case "unknown", "empty-role":
						expectFailed(e, "rejected credentials", true)
					default:
						latitude()
					}
				case phEstablished:
					// traffic and finishing belong to other properties; C07 only bounds what may still be emitted
				}
			}
		}
		// anything left over must be the single terminal envelope (after establishment or a refusal)
		for ; fi < len(sframes); fi++ {
			st := fstr(sframes[fi].Frame, "state")
			if st == "failed" || st == "finished" {
				continue
			}
			bad("C07.unsolicited-session-envelope", st, "the server emitted %s with no client input that calls for it", short(canonJSON(sframes[fi].Frame), 160))
		}
		// fail closed: after a failed session the server closes the connection
		if terminalAt >= 0 && !peer.RemoteClosed().IsSet() && peer.Kind != "inproc" {
			if !peer.RemoteClosed().WaitFor(60 * time.Second) {
				bad("C07.not-closed-after-failed", "close", "the server sent a terminal session envelope but did not close the connection within 60 s")
			}
		}
	}
}

func runC07(w *World, pi interface{}) {
	p := pi.(*PlanSrv)
	if p.Conf.Full && len(p.Scripts) > 1 {
		// the builder's callbacks cannot be attributed to one of several concurrent connections,
		// which the reference model needs: one connection at a time against a full server
		p.Scripts = p.Scripts[:1]
	}
	var last []string
	h, sut, peers := runSrvScenario(w, p, func(s *SUT) {
		w.AfterEachStep(func() {
			for k, ch := range s.Chans {
				st := string(ch.State())
				for len(last) <= k {
					last = append(last, "")
				}
				if st != last[k] {
					last[k] = st
					s.h.Add(1000+k, "state-obs", map[string]interface{}{"state": st}, "", "")
				}
			}
		})
	})
	if sut == nil {
		return
	}
	oracleC07(w, p, h, sut, peers)
	for _, pr := range peers {
		if pr != nil && !pr.RemoteClosed().IsSet() {
			pr.Close()
		}
	}
	sut.Shutdown()
}

func init() {
	register(&PropDef{
		ID:     "C07",
		New:    func() interface{} { return &PlanSrv{} },
		Gen:    genPlanSrv,
		Run:    runC07,
		MaxSim: 2 * time.Hour,
		Rule: "same plan space as C03 (server configuration lattice x callback outcomes x scripted raw client words of <= 8 steps x optional link faults); every run's recorded history " +
			"(client inputs, server session envelopes, callback invocations, visible State()) is walked through an executable reference model of the server side of the handshake that " +
			"says, per client input, which emissions are acceptable; Server.Close from inside a callback of a pending handshake (no answer is owed afterwards, protocol order still is); non-trivial = at least one scripted client connected; distinct = distinct (plan JSON, event-log hash)",
	})
}
