module harness

go 1.26

require (
	github.com/google/uuid v1.3.0
	github.com/gorilla/websocket v1.4.2
	github.com/takenet/lime-go v0.0.0
	verifsim v0.0.0
)

replace verifsim => /verif/simlib

replace github.com/takenet/lime-go => /var/tmp/verif-placeholder/lime
