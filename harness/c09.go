package harness

import (
	"bytes"
	"context"
	"encoding/json"
	"fmt"
	"strings"
	"time"

	lime "github.com/takenet/lime-go"
	"verifsim/simnet"
	"verifsim/simrt"
)

// C09Cli is one client of a negotiation run.
type C09Cli struct {
	L       int    `json:"l"`
	Sel     string `json:"sel"`    // encryption selector of a real client: "", none, tls
	Raw     bool   `json:"raw"`    // scripted cooperative raw client instead of a real ClientChannel
	Choice  int    `json:"choice"` // raw client: which offered options it picks
	Bad     int    `json:"bad"`    // raw client: 0 picks from the offer, 1 not offered, 2 empty, 3 unknown, 4 picks tls and pipelines its credentials in cleartext behind the choice (same write), then upgrades and stays silent
	StartMs int    `json:"start_ms"`
	// raw client: JSON whitespace sent in the same segment as the beginning of its TLS hello, and
	// where the hello is cut (0 = not shaped)
	HelloDelim int `json:"hello_delim,omitempty"`
	HelloSplit int `json:"hello_split,omitempty"`
}

var helloDelims = []string{"", "\n", "\r\n", " \n\t"}

// PlanC09 runs several clients through the negotiation of one server.
type PlanC09 struct {
	Conf    FullConf  `json:"conf"`
	Clients []C09Cli  `json:"clients"`
	Faults  FaultSpec `json:"faults"`
	Back    FaultSpec `json:"back"`
	// CliRole, when set, is the other half of the property: a real client channel against a
	// scripted server (the C08 machinery) that offers, confirms and switches
	CliRole *PlanC08 `json:"cli_role,omitempty"`
}

func genC09(t *simrt.Tape, tier string) interface{} {
	p := &PlanC09{Faults: NoFaults(), Back: NoFaults()}
	if t.Draw(6) == 0 {
		c := &PlanC08{Faults: NoFaults(), TLSCfg: true, CtxMs: 30000, Buf: 1}
		c.Script = []SStep{
			{Op: "session", State: "negotiating", Comp: []string{"none"}, Enc: [][]string{{"none", "tls"}, {"tls"}, {"tls", "none"}}[t.Draw(3)], From: 0, To: 3},
			{Op: "session", State: "negotiating", SelComp: []string{"none", "", "none"}[t.Draw(3)], SelEnc: []string{"tls", "tls", "none", ""}[t.Draw(4)], From: 0, To: 3},
			{Op: "auto", From: 0, To: 3}, {Op: "auto", From: 0, To: 3}, {Op: "auto", From: 0, To: 3},
		}
		c.EncSel = []string{"", "none", "tls"}[t.Draw(3)]
		c.Auth = []string{"guest", "plain", "key", "external"}[t.Draw(4)]
		if t.Draw(2) == 0 {
			c.HelloDelim = 1 + t.Draw(3)
			c.HelloSplit = []int{1 + t.Draw(1500), 1 + t.Draw(200), 5, 9}[t.Draw(4)]
		}
		if t.Draw(3) == 0 {
			c.Faults = GenFaults(t, 400, true)
			c.Faults.Capacity = 0
			clampTiming(&c.Faults)
		}
		p.CliRole = c
		p.Conf = FullConf{Listeners: []string{"tcp"}}
		p.Clients = []C09Cli{{}}
		return p
	}
	p.Conf = GenFullConf(t, 1+t.Draw(3))
	p.Conf.Enc = [][]string{{"none", "tls"}, {"tls", "none"}, {"tls"}, {"none"}}[t.Draw(4)]
	p.Conf.Comp = [][]string{{"none"}, {"none", "gzip"}, {"gzip", "none"}}[t.Draw(3)]
	for i := 1 + t.Draw(4); i > 0; i-- {
		c := C09Cli{L: t.Draw(len(p.Conf.Listeners)), Sel: []string{"", "none", "tls"}[t.Draw(3)], Raw: t.Draw(3) == 0, Choice: t.Draw(4), StartMs: []int{0, 0, 1, 50, 500}[t.Draw(5)]}
		if c.Raw && t.Draw(3) == 0 {
			c.Bad = 1 + t.Draw(4)
		}
		k := p.Conf.Listeners[c.L]
		if k == "inproc" || ((k == "ws" || k == "wss") && t.Draw(3) != 0) {
			c.Raw = true // frames of these transports are observed through a scripted client
		}
		if c.Raw && k == "tcptls" && t.Draw(2) == 0 {
			c.HelloDelim = 1 + t.Draw(3)
			c.HelloSplit = []int{43, 1 + t.Draw(300), 1 + t.Draw(60), 5}[t.Draw(4)]
		}
		p.Clients = append(p.Clients, c)
	}
	if t.Draw(2) == 0 {
		// fragmentation is what matters around the confirmation / TLS hello boundary
		p.Faults = GenFaults(t, 400, true)
		p.Back = GenFaults(t, 400, true)
		for _, f := range []*FaultSpec{&p.Faults, &p.Back} {
			f.Capacity = 0
			clampTiming(f)
			if t.Draw(2) == 0 {
				f.FragMode = []int{2, 3, 4}[t.Draw(3)]
				f.FragMax = []int{1, 2, 5}[t.Draw(3)]
				f.FragSizes = []int{1 + t.Draw(90), 1 + t.Draw(5)}
			}
		}
	}
	return p
}

func supportedEnc(kind string) (sup []string, ambiguousTLS bool) {
	switch kind {
	case "tcp":
		return []string{"none", "tls"}, true // advertised, but cannot be applied without a TLS configuration
	case "tcptls":
		return []string{"none", "tls"}, false
	case "wss":
		return []string{"tls"}, false
	default:
		return []string{"none"}, false
	}
}

// splitCleartextFrames splits a tap into the leading JSON frames and whatever follows.
func splitCleartextFrames(tap []byte) (frames []map[string]interface{}, ends []int, rest []byte) {
	off := 0
	for off < len(tap) {
		// skip whitespace between frames
		i := off
		for i < len(tap) && (tap[i] == '\n' || tap[i] == ' ' || tap[i] == '\r' || tap[i] == '\t') {
			i++
		}
		if i >= len(tap) || tap[i] != '{' {
			return frames, ends, tap[i:]
		}
		dec := json.NewDecoder(bytes.NewReader(tap[i:]))
		var m map[string]interface{}
		if err := dec.Decode(&m); err != nil {
			return frames, ends, tap[i:]
		}
		off = i + int(dec.InputOffset())
		frames = append(frames, m)
		ends = append(ends, off)
	}
	return frames, ends, nil
}

func runC09(w *World, pi interface{}) {
	p := pi.(*PlanC09)
	if p.CliRole != nil {
		w.OnlyRules = "C09."
		runC08(w, p.CliRole)
		return
	}
	if len(p.Conf.Listeners) == 0 || len(p.Clients) == 0 {
		return
	}
	if len(p.Conf.Listeners) > 3 {
		p.Conf.Listeners = p.Conf.Listeners[:3]
	}
	if len(p.Clients) > 5 {
		p.Clients = p.Clients[:5]
	}
	if len(p.Conf.Enc) == 0 {
		p.Conf.Enc = []string{"none"}
	}
	if len(p.Conf.Comp) == 0 || !containsS(p.Conf.Comp, "none") {
		p.Conf.Comp = append([]string{"none"}, p.Conf.Comp...)
	}
	f, err := StartFull(w, p.Conf, 8200, nil)
	if err != nil {
		return
	}
	defer f.Close()
	if !f.WaitListening() {
		return
	}
	h := &History{}
	links := map[int]*simnet.Link{} // client index -> link
	w.Net.OnLink = func(lk *simnet.Link) {
		p.Faults.Apply(w, lk.AB)
		p.Back.Apply(w, lk.BA)
	}
	w.Armed = true
	type result struct {
		established bool
		err         error
		done        *Flag
		peer        *RawPeer
		ch          *lime.ClientChannel
	}
	res := make([]*result, len(p.Clients))
	for i := range p.Clients {
		i := i
		c := p.Clients[i]
		if c.L < 0 || c.L >= len(p.Conf.Listeners) {
			c.L = 0
		}
		kind := p.Conf.Listeners[c.L]
		if kind == "inproc" {
			c.Raw = true
		}
		p.Clients[i] = c
		r := &result{done: NewFlag()}
		res[i] = r
		go func() {
			defer r.done.Set()
			time.Sleep(time.Duration(c.StartMs) * time.Millisecond)
			before := w.Net.LinkCount()
			if c.Raw {
				var peer *RawPeer
				var err error
				switch kind {
				case "tcp", "tcptls":
					peer, err = DialRawTCP(w, h, i, tcpAddr(f.BasePort+c.L).String())
				case "ws":
					peer, err = DialRawWS(w, h, i, fmt.Sprintf("ws://127.0.0.1:%d", f.BasePort+c.L), nil)
				case "wss":
					_, cli := TLSConfigs()
					peer, err = DialRawWS(w, h, i, fmt.Sprintf("wss://127.0.0.1:%d", f.BasePort+c.L), cli)
				default:
					peer, err = DialRawInProc(w, h, i, f.InProc[c.L], 2)
				}
				if err != nil {
					r.err = err
					return
				}
				r.peer = peer
				if peer.Link != nil {
					links[i] = peer.Link
				}
				peer.HelloDelim, peer.HelloSplit = helloDelims[c.HelloDelim%len(helloDelims)], c.HelloSplit
				if c.Bad == 4 {
					// cleartext credentials pipelined behind the choice of TLS, in the same write
					ScriptRun(w, peer, []Step{{Op: "auto"}})
					lf := peer.LastSessionFrame()
					if kind != "tcptls" || fstr(lf, "state") != "negotiating" || !containsS(fstrs(lf, "encryptionOptions"), "tls") {
						// nothing to upgrade on this connection: behave like a cooperative client
						for _, st := range []Step{{Op: "auto", Choice: c.Choice}, {Op: "auto"}, {Op: "auto", Choice: c.Choice}, {Op: "auto"}} {
							ScriptRun(w, peer, []Step{st})
						}
						r.established = fstr(peer.LastSessionFrame(), "state") == "established"
						return
					}
					sid := fstr(lf, "id")
					f1 := canonJSON(map[string]interface{}{"state": "negotiating", "id": sid, "compression": "none", "encryption": "tls"})
					f2 := canonJSON(map[string]interface{}{"state": "authenticating", "id": sid, "from": identityFor(0, "plain"), "scheme": "plain", "authentication": authObject("plain", 0)})
					n0 := peer.NFrames()
					peer.SendBytes([]byte(f1+"\n"+f2+"\n"), "tls choice + cleartext credentials in one write")
					w.Count("pipelined-cleartext-credentials")
					peer.AwaitFrame(n0, 10*time.Second)
					if peer.NeedsTLS() {
						if err := peer.UpgradeTLS(false); err != nil {
							w.Count("pipelined-upgrade-refused")
						} else {
							w.Count("pipelined-upgrade-completed")
						}
					}
					// nothing is sent under TLS: whatever the server does now rests on the cleartext bytes
					peer.RemoteClosed().WaitFor(20 * time.Second)
					for _, e := range h.Of(i, "s-frame") {
						if st := fstr(e.Frame, "state"); st == "established" {
							w.Violate("C09.cleartext-credentials-accepted-after-tls-confirmation", fmt.Sprintf("pipelined transport=%s", kind),
								"client %d chose TLS and pipelined its credentials in cleartext behind the choice; it sent nothing under TLS, yet the server established the session on those credentials\n%s", i, h.Dump(40))
						}
					}
					r.established = false
					return
				}
				steps := []Step{{Op: "auto"}, {Op: "auto", Choice: c.Choice}, {Op: "auto"}, {Op: "auto", Choice: c.Choice}, {Op: "auto"}}
				if c.Bad > 0 {
					bad := Step{Op: "session", State: "negotiating", Comp: "none", Enc: []string{"", "tls", "", "bogus"}[c.Bad]}
					switch c.Bad {
					case 1:
						// an option that exists but is not in this connection's offer is chosen at run time below
						bad.Enc = "@not-offered"
					case 2:
						bad.Comp, bad.Enc = "", ""
					}
					steps = []Step{{Op: "auto"}, bad, {Op: "auto"}, {Op: "auto"}}
				}
				for _, st := range steps {
					if st.Enc == "@not-offered" {
						lf := peer.LastSessionFrame()
						offered := fstrs(lf, "encryptionOptions")
						st.Enc = "tls"
						if containsS(offered, "tls") {
							st.Enc = "none"
						}
						if containsS(offered, "tls") && containsS(offered, "none") {
							st.Comp = "gzip"
							st.Enc = "none"
						}
					}
					ScriptRun(w, peer, []Step{st})
				}
				r.established = fstr(peer.LastSessionFrame(), "state") == "established"
				return
			}
			spec := CliSpec{L: c.L, Enc: c.Sel, Buf: 1, Auth: "plain"}
			ctx, cancel := context.WithTimeout(context.Background(), 3*time.Minute)
			ch, ses, err := f.ConnectChannel(ctx, spec, i)
			cancel()
			r.ch = ch
			if n := w.Net.LinkCount(); n > before {
				links[i] = w.Net.GetLink(n - 1)
			}
			r.err = err
			r.established = err == nil && ses != nil && ses.State == lime.SessionStateEstablished
		}()
		// the link of a real client is identified by creation order: let clients dial one at a time
		r.done.WaitFor(5 * time.Minute)
	}
	// ---- oracle, per connection ----
	for i, c := range p.Clients {
		kind := p.Conf.Listeners[c.L]
		sig := func(what string) string { return fmt.Sprintf("%s transport=%s raw=%v", what, kind, c.Raw) }
		sup, amb := supportedEnc(kind)
		wantEnc := intersectS(p.Conf.Enc, sup)
		wantEncAlt := wantEnc
		if amb {
			wantEncAlt = filterOut(wantEnc, "tls")
		}
		wantComp := intersectS(p.Conf.Comp, []string{"none"})
		// the two ends agree on which encryption is in force: what the client's transport reports is
		// what the connection really carries
		if !c.Raw && res[i].established && f.CliTransports[i] != nil {
			got := string(f.CliTransports[i].Encryption())
			truth := ""
			switch kind {
			case "ws":
				truth = "none"
			case "wss":
				truth = "tls"
			case "tcp", "tcptls":
				if lk := links[i]; lk != nil {
					// (TLS records follow the cleartext confirmation on the wire, or nothing but JSON does)
					_, _, rest := splitCleartextFrames(lk.AB.Tap())
					truth = "none"
					if len(bytes.TrimSpace(rest)) > 0 && bytes.TrimSpace(rest)[0] == 0x16 {
						truth = "tls"
					}
				}
			}
			if truth != "" && got != truth {
				w.Violate("C09.ends-disagree-on-encryption", sig("client transport"), "client %d on %s is established and its transport reports encryption %q, the connection carries %q", i, kind, got, truth)
			}
		}
		if !c.Raw && (kind == "ws" || kind == "wss") {
			continue // (websocket frames of a real client are not read off the tap)
		}
		// frames the server sent, as seen by the client side
		var sframes, cframes []map[string]interface{}
		var s2cRest, c2sRest []byte
		if c.Raw {
			if res[i].peer == nil {
				continue
			}
			for _, e := range h.Of(i, "s-frame") {
				sframes = append(sframes, e.Frame)
			}
			for _, e := range h.Of(i, "c-send") {
				cframes = append(cframes, e.Frame)
			}
		} else {
			lk := links[i]
			if lk == nil {
				continue
			}
			sframes, _, s2cRest = splitCleartextFrames(lk.BA.Tap())
			cframes, _, c2sRest = splitCleartextFrames(lk.AB.Tap())
		}
		var offer, confirm map[string]interface{}
		var choice map[string]interface{}
		for _, m := range sframes {
			if fstr(m, "state") == "negotiating" {
				if m["compressionOptions"] != nil || m["encryptionOptions"] != nil {
					if offer == nil {
						offer = m
					}
				} else if confirm == nil {
					confirm = m
				}
			}
		}
		for _, m := range cframes {
			if fstr(m, "state") == "negotiating" && choice == nil {
				choice = m
			}
		}
		if offer == nil {
			// no offer at all is only right when there is nothing to choose and nothing to switch
			cur := "none"
			if kind == "wss" {
				cur = "tls"
			}
			need := func(enc []string) bool {
				return len(wantComp) > 1 || len(enc) > 1 || (len(enc) == 1 && enc[0] != cur)
			}
			went := ""
			for _, m := range sframes {
				if st := fstr(m, "state"); st == "authenticating" || st == "established" {
					went = st
					break
				}
			}
			if went != "" && need(wantEnc) && need(wantEncAlt) {
				w.Violate("C09.negotiation-skipped", sig("offer"), "client %d on %s got %q without any negotiation offer; configured %v / %v, supported by the connection %v -> an offer of %v / %v was due", i, kind, went, p.Conf.Comp, p.Conf.Enc, sup, wantComp, wantEnc)
			}
		}
		if offer != nil {
			co, eo := fstrs(offer, "compressionOptions"), fstrs(offer, "encryptionOptions")
			if !setEq(co, wantComp) || !(setEq(eo, wantEnc) || setEq(eo, wantEncAlt)) {
				w.Violate("C09.offer-not-configured-and-supported", sig("offer"), "client %d on %s was offered compression %v encryption %v; configured %v / %v, supported by the connection %v -> expected %v / %v", i, kind, co, eo, p.Conf.Comp, p.Conf.Enc, sup, wantComp, wantEnc)
			}
			if choice != nil {
				cc, ce := fstr(choice, "compression"), fstr(choice, "encryption")
				valid := containsS(co, cc) && containsS(eo, ce)
				if confirm != nil && (!valid || fstr(confirm, "compression") != cc || fstr(confirm, "encryption") != ce) {
					w.Violate("C09.confirmed-pair-not-from-offer", sig("confirmation"), "client %d chose %q/%q from offer %v/%v and the server confirmed %q/%q", i, cc, ce, co, eo, fstr(confirm, "compression"), fstr(confirm, "encryption"))
				}
				if !valid {
					failed := false
					for _, m := range sframes {
						if fstr(m, "state") == "failed" {
							failed = true
						}
					}
					if !failed && kind != "inproc" && p.Faults.Benign() {
						w.Violate("C09.invalid-choice-not-failed", sig("choice"), "client %d chose %q/%q, which is not in the offer %v/%v, and was not answered with a failed session (frames: %v)", i, cc, ce, co, eo, sframes)
					}
					if res[i].established {
						w.Violate("C09.invalid-choice-established", sig("choice"), "client %d chose %q/%q, which is not in the offer %v/%v, and the session was established", i, cc, ce, co, eo)
					}
				}
			}
		}
		// after a confirmation naming TLS nothing travels in cleartext, in either direction
		if confirm != nil && fstr(confirm, "encryption") == "tls" && !c.Raw {
			after := false
			for _, m := range sframes {
				if after {
					w.Violate("C09.cleartext-after-tls-confirmation", sig("server->client"), "the server sent %s in cleartext after confirming TLS to client %d", short(canonJSON(m), 160), i)
				}
				if fstr(m, "state") == "negotiating" && fstr(m, "encryption") == "tls" && m["encryptionOptions"] == nil {
					after = true
				}
			}
			for _, m := range cframes {
				if fstr(m, "state") == "authenticating" || m["authentication"] != nil {
					w.Violate("C09.cleartext-after-tls-confirmation", sig("client->server"), "client %d sent %s in cleartext although TLS had been confirmed", i, short(canonJSON(m), 160))
				}
			}
			for _, rest := range [][]byte{s2cRest, c2sRest} {
				trimmed := bytes.TrimLeft(rest, "\n\r\t ")
				if len(trimmed) > 0 && trimmed[0] != 0x16 && trimmed[0] != 0x15 && trimmed[0] != 0x14 && trimmed[0] != 0x17 {
					w.Violate("C09.cleartext-after-tls-confirmation", sig("bytes"), "bytes that are neither JSON session envelopes nor TLS records follow the TLS confirmation of client %d: % x", i, trimmed[:min(len(trimmed), 16)])
				}
				if bytes.Contains(rest, []byte(`"state"`)) || bytes.Contains(rest, []byte(`"password"`)) {
					w.Violate("C09.cleartext-after-tls-confirmation", sig("bytes"), "readable session data follows the TLS confirmation of client %d", i)
				}
			}
			// both ends apply what was confirmed: with a TLS-capable listener and only benign faults the handshake completes
			if kind == "tcptls" && p.Faults.Benign() && p.Back.Benign() && !res[i].established {
				w.Violate("C09.confirmed-options-not-applied", sig("tls upgrade"), "TLS was confirmed to client %d on a TLS-capable listener, but the session was not established: %v", i, res[i].err)
			}
		}
		// a cooperative real client with an applicable choice establishes
		if !c.Raw && kind == "tcptls" && p.Faults.Benign() && p.Back.Benign() && !res[i].established && offer != nil && choice != nil {
			cc, ce := fstr(choice, "compression"), fstr(choice, "encryption")
			if containsS(fstrs(offer, "compressionOptions"), cc) && containsS(fstrs(offer, "encryptionOptions"), ce) && confirm == nil {
				w.Violate("C09.valid-choice-not-confirmed", sig("choice"), "client %d chose %q/%q from the offer and was not confirmed: %v", i, cc, ce, res[i].err)
			}
		}
	}
	for _, r := range res {
		if r.ch != nil {
			r.ch.Close()
		}
		if r.peer != nil && !r.peer.RemoteClosed().IsSet() {
			r.peer.Close()
		}
	}
	_ = strings.Contains
}

func init() {
	register(&PropDef{
		ID:     "C09",
		New:    func() interface{} { return &PlanC09{} },
		Gen:    genC09,
		Run:    runC09,
		MaxSim: 2 * time.Hour,
		Rule: "plans = (one real server with 1-3 listeners of mixed kinds, configured encryption list from {[none,tls],[tls,none],[tls],[none]} and compression list from {[none],[none,gzip],[gzip,none]}; 1-4 clients dialling one after another: real ClientChannel with " +
			"encryption selector default/none/tls, or scripted cooperative raw client picking offered options, or one that picks a not-offered / empty / unknown option, or one that picks TLS and pipelines cleartext credentials behind its choice in the same write; benign link faults with emphasis on fragmentation in both directions); " +
			"oracle per connection from the wire taps (tcp) or the scripted client's frames (ws, wss, in-process): offer = configured intersect supported, confirmation only of a pair from the offer, other choices failed, after a TLS confirmation only TLS records in either direction, " +
			"real websocket clients (optionally dialled with a TLS configuration on ws://): the encryption their transport reports equals what the connection carries; client role (one plan in six): a real ClientChannel against a scripted server that offers, confirms with both / one / no option field and switches to TLS itself, first TLS flights shaped by a late delimiter and a cut offset; " +
			"the confirmed upgrade completes under benign faults, and nothing is established on credentials that travelled in cleartext behind a TLS choice; non-trivial = server started; distinct = distinct (plan JSON, event-log hash)",
	})
}
