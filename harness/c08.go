package harness

import (
	"context"
	"fmt"
	"time"

	lime "github.com/takenet/lime-go"
	"verifsim/simnet"
	"verifsim/simrt"
)

// SStep is one action of a scripted server: what it answers to the client's next envelope.
type SStep struct {
	Op       string   `json:"op"`                // auto, session, data, garbage, half, close, reset, silent
	State    string   `json:"state,omitempty"`   // explicit session state
	IDMode   int      `json:"id_mode,omitempty"` // 0 the session id, 1 none, 2 a fresh different id
	Comp     []string `json:"comp,omitempty"`    // option lists (negotiating offer)
	Enc      []string `json:"enc,omitempty"`
	SelComp  string   `json:"sel_comp,omitempty"` // confirmation
	SelEnc   string   `json:"sel_enc,omitempty"`
	Schemes  []string `json:"schemes,omitempty"`
	RT       bool     `json:"rt,omitempty"`   // carry round-trip authentication data
	From     int      `json:"from,omitempty"` // node variants for from/to
	To       int      `json:"to,omitempty"`
	Reason   bool     `json:"reason,omitempty"`
	Garbage  int      `json:"garbage,omitempty"`
	Kind     int      `json:"kind,omitempty"`
	NoReason bool     `json:"no_reason,omitempty"` // a failed session without the reason member
	Then     string   `json:"then,omitempty"`      // session steps: "close" or "reset" right behind the envelope, without waiting for the client
}

// PlanC08 is one scripted-server run against a real client channel.
type PlanC08 struct {
	Script []SStep   `json:"script"`
	EncSel string    `json:"enc_sel"` // client's encryption selector: "", none, tls
	Auth   string    `json:"auth"`    // client's authenticator kind
	TLSCfg bool      `json:"tls_cfg"` // client transport has a TLS configuration
	CtxMs  int       `json:"ctx_ms"`  // EstablishSession context (deadline)
	After  []SStep   `json:"after"`   // what the server sends once the client reported an established session
	Faults FaultSpec `json:"faults"`  // server->client direction
	Buf    int       `json:"buf"`
	// how the scripted server shapes its first TLS flight (see RawPeer.HelloDelim)
	HelloDelim int `json:"hello_delim,omitempty"`
	HelloSplit int `json:"hello_split,omitempty"`
}

var optLists = [][]string{{"none"}, {"none", "tls"}, {"tls"}, {}, {"bogus"}, {"none", "none"}, {"tls", "none", "gzip"}}
var nodeVariants = []string{"postmaster@srv.org/s1", "other@else.org/x", "", "alice@cli.org/home", "weird"}

func genSStep(t *simrt.Tape) SStep {
	switch t.Draw(12) {
	case 0, 1, 2, 3, 4:
		return SStep{Op: "auto", From: 0, To: 3}
	case 5, 6, 7, 8:
		s := SStep{Op: "session", State: stateNames[t.Draw(len(stateNames))], IDMode: t.Biased(3, 2, 3), From: t.Biased(5, 1, 2), To: t.Draw(5), Reason: t.Draw(2) == 0}
		if t.Draw(2) == 0 {
			s.Comp = optLists[t.Draw(len(optLists))]
			s.Enc = optLists[t.Draw(len(optLists))]
		}
		if t.Draw(2) == 0 {
			s.SelComp = []string{"none", "gzip", "", "bogus"}[t.Draw(4)]
			s.SelEnc = []string{"none", "tls", "", "bogus"}[t.Draw(4)]
		}
		if t.Draw(2) == 0 {
			s.Schemes = [][]string{{"guest"}, {"plain", "key"}, {}, {"bogus"}, {"guest", "guest"}}[t.Draw(5)]
		}
		s.RT = t.Draw(4) == 0
		s.NoReason = t.Draw(3) == 0
		if t.Draw(5) == 0 {
			s.Then = []string{"close", "reset"}[t.Draw(2)]
		}
		return s
	case 9:
		return SStep{Op: "data", Kind: t.Draw(4)}
	case 10:
		return SStep{Op: []string{"garbage", "half"}[t.Draw(2)], Garbage: t.Draw(len(garbage))}
	default:
		return SStep{Op: []string{"close", "reset", "silent"}[t.Draw(3)]}
	}
}

func genC08(t *simrt.Tape, tier string) interface{} {
	p := &PlanC08{Faults: NoFaults()}
	n := 1 + t.Draw(8)
	for i := 0; i < n; i++ {
		p.Script = append(p.Script, genSStep(t))
	}
	if t.Draw(3) == 0 {
		// template: a correct handshake that deviates once
		p.Script = nil
		for i := 0; i < 4; i++ {
			p.Script = append(p.Script, SStep{Op: "auto", From: 0, To: 3})
		}
		p.Script[t.Draw(4)] = genSStep(t)
	}
	p.EncSel = []string{"", "none", "tls"}[t.Draw(3)]
	p.Auth = []string{"guest", "plain", "key", "external"}[t.Draw(4)]
	p.TLSCfg = t.Draw(2) == 0
	p.CtxMs = []int{30000, 30000, 2000, 200}[t.Draw(4)]
	for i := t.Draw(3); i > 0; i-- {
		p.After = append(p.After, genSStep(t))
	}
	if t.Draw(3) == 0 {
		p.Faults = GenFaults(t, 500, t.Draw(2) == 0)
		p.Faults.Capacity = 0
		clampTiming(&p.Faults)
	}
	p.Buf = []int{0, 1, 8}[t.Draw(3)]
	return p
}

// serverFrame builds the frame of a scripted-server step. sid is the session id in use,
// last is the client's latest frame.
func serverFrame(st SStep, sid string, last map[string]interface{}, nAuth *int) map[string]interface{} {
	id := interface{}(sid)
	switch st.IDMode {
	case 1:
		id = nil
	case 2:
		id = sid + "-changed"
	}
	node := func(v int) interface{} {
		s := nodeVariants[v%len(nodeVariants)]
		if s == "" {
			return nil
		}
		return s
	}
	if st.Op == "auto" {
		switch fstr(last, "state") {
		case "new":
			return map[string]interface{}{"state": "authenticating", "id": sid, "from": nodeVariants[0], "schemeOptions": []string{"guest", "plain", "key", "external"}}
		case "negotiating":
			return map[string]interface{}{"state": "negotiating", "id": sid, "from": nodeVariants[0], "compression": fstr(last, "compression"), "encryption": fstr(last, "encryption")}
		case "authenticating":
			*nAuth++
			return map[string]interface{}{"state": "established", "id": sid, "from": nodeVariants[0], "to": nodeVariants[3]}
		case "finishing":
			return map[string]interface{}{"state": "finished", "id": sid, "from": nodeVariants[0]}
		}
		return map[string]interface{}{"state": "failed", "id": sid, "from": nodeVariants[0], "reason": map[string]interface{}{"code": 1, "description": "unexpected"}}
	}
	m := map[string]interface{}{"state": st.State, "id": id, "from": node(st.From)}
	if st.State == "established" || st.To != 2 {
		m["to"] = node(st.To)
	}
	if st.Comp != nil || st.Enc != nil {
		if st.State == "negotiating" || len(st.Comp)+len(st.Enc) > 0 {
			m["compressionOptions"] = st.Comp
			m["encryptionOptions"] = st.Enc
		}
	}
	if st.SelComp != "" {
		m["compression"] = st.SelComp
	}
	if st.SelEnc != "" {
		m["encryption"] = st.SelEnc
	}
	if st.Schemes != nil {
		m["schemeOptions"] = st.Schemes
	}
	if st.RT {
		m["scheme"] = "external"
		m["authentication"] = map[string]interface{}{"token": "challenge", "issuer": "srv"}
	}
	if (st.Reason || st.State == "failed") && !st.NoReason {
		m["reason"] = map[string]interface{}{"code": 13, "description": "scripted"}
	}
	for k, v := range m {
		if v == nil {
			delete(m, k)
		}
	}
	return m
}

func runC08(w *World, pi interface{}) {
	p := pi.(*PlanC08)
	if len(p.Script) > 12 {
		p.Script = p.Script[:12]
	}
	if p.CtxMs < 50 {
		p.CtxMs = 50
	}
	h := &History{}
	rl, err := w.Net.Listen(tcpAddr(7600).String())
	if err != nil {
		return
	}
	defer rl.Close()
	w.Net.OnLink = func(lk *simnet.Link) { p.Faults.Apply(w, lk.BA) }
	_, cliTLS := TLSConfigs()
	cfg := &lime.TCPConfig{}
	if p.TLSCfg {
		cfg.TLSConfig = cliTLS
	}
	dctx, dcancel := context.WithTimeout(context.Background(), time.Minute)
	tr, err := lime.DialTcp(dctx, tcpAddr(7600), cfg)
	dcancel()
	if err != nil {
		return
	}
	rc, err := rl.Accept()
	if err != nil {
		return
	}
	peer := NewRawTCPFromConn(w, h, 0, rc.(*simnet.Conn))
	w.Armed = true
	sid := "sess-0001"
	peer.HelloDelim, peer.HelloSplit = helloDelims[p.HelloDelim%len(helloDelims)], p.HelloSplit

	returned := NewFlag()
	scriptDone := NewFlag()
	nAuth := 0
	terminalSent := NewFlag()
	lastSent := map[string]interface{}(nil) // the last session frame the script sent
	// the scripted server: one step per client envelope
	play := func(steps []SStep, start int) int {
		n := start
		for _, st := range steps {
			if st.Op != "silent" && !peer.AwaitFrame(n, 90*time.Second) {
				return n
			}
			n = peer.NFrames()
			if peer.RemoteClosed().IsSet() {
				return n
			}
			last := peer.LastFrame()
			var m map[string]interface{}
			upgrade := false
			if st.Op == "auto" || st.Op == "session" {
				m = serverFrame(st, sid, last, &nAuth)
				// a confirmation of TLS: a real server upgrades right behind it
				upgrade = fstr(m, "state") == "negotiating" && fstr(m, "encryption") == "tls" && fstr(last, "state") == "negotiating" && p.TLSCfg && st.Then == ""
			}
			if upgrade {
				// the client's next bytes are its TLS hello: they are not for the cleartext reader
				peer.PauseReader()
			} else if peer.NeedsTLS() {
				// the client confirmed nothing: only the server's own confirmation triggers an upgrade
				peer.ResumeCleartext()
			}
			switch st.Op {
			case "auto", "session":
				peer.SendJSON(m)
				lastSent = m
				if s := fstr(m, "state"); s == "failed" || s == "finished" {
					terminalSent.Set()
				}
				if st.Then == "close" {
					peer.Close()
					return n
				}
				if st.Then == "reset" {
					peer.Reset()
					return n
				}
				if upgrade {
					if err := peer.UpgradeTLS(true); err == nil {
						w.Count("server-tls-upgraded")
					} else {
						w.Count("server-tls-failed")
						if c := fstr(m, "compression"); w.OnlyRules == "C09." && p.Faults.Benign() && p.CtxMs >= 2000 && (c == "" || c == "none") {
							w.Violate("C09.client-did-not-switch-to-confirmed-encryption", "confirmation="+short(canonJSON(map[string]interface{}{"compression": m["compression"], "encryption": m["encryption"]}), 80),
								"the server confirmed the negotiation with encryption tls and switched, the client (with a TLS configuration) did not: %v\n%s", err, h.Dump(40))
						}
					}
				}
			case "data":
				switch st.Kind & 3 {
				case 0:
					peer.SendJSON(map[string]interface{}{"id": "sd", "type": "text/plain", "content": "x"})
				case 1:
					peer.SendJSON(map[string]interface{}{"id": "sd", "event": "received"})
				case 2:
					peer.SendJSON(map[string]interface{}{"id": "sd", "method": "get", "uri": "/ping"})
				default:
					peer.SendJSON(map[string]interface{}{"id": "sd", "method": "get", "status": "success"})
				}
			case "garbage":
				peer.SendBytes([]byte(garbage[st.Garbage%len(garbage)]+"\n"), "garbage")
			case "half":
				peer.SendBytes([]byte(`{"state":"establi`), "half-frame")
			case "close":
				peer.Close()
				return n
			case "reset":
				peer.Reset()
				return n
			case "silent":
				return n
			}
		}
		return n
	}
	go func() {
		defer scriptDone.Set()
		n := play(p.Script, 0)
		if peer.NeedsTLS() {
			// the client's own choice of TLS is no upgrade point for the scripted server: keep reading
			peer.ResumeCleartext()
		}
		// whatever comes after the client's own report is played only once it has reported
		if returned.WaitFor(3*time.Minute) && len(p.After) > 0 && !peer.RemoteClosed().IsSet() {
			for _, st := range p.After {
				if st.Op == "auto" || st.Op == "silent" {
					continue
				}
				st := st
				// unsolicited: do not wait for a client envelope
				switch st.Op {
				case "session":
					m := serverFrame(st, sid, nil, &nAuth)
					peer.SendJSON(m)
					if s := fstr(m, "state"); s == "failed" || s == "finished" {
						terminalSent.Set()
					}
				case "garbage":
					peer.SendBytes([]byte(garbage[st.Garbage%len(garbage)]+"\n"), "garbage")
				case "close":
					peer.Close()
				case "reset":
					peer.Reset()
				}
				time.Sleep(10 * time.Millisecond)
			}
		}
		_ = n
	}()
	ch := lime.NewClientChannel(tr, p.Buf)
	// an observer looks at the channel between any two scheduler steps: the moment it calls itself
	// established it must already carry the id and the nodes of the established envelope
	halfAdopted := ""
	halfStep := 0
	w.AfterEachStep(func() {
		if halfAdopted == "" && ch.Established() {
			if ch.ID() == "" || ch.LocalNode().String() == "" || ch.RemoteNode().String() == "" {
				halfStep = simrt.Step()
				halfAdopted = fmt.Sprintf("id=%q local=%q remote=%q at step %d", ch.ID(), ch.LocalNode().String(), ch.RemoteNode().String(), simrt.Step())
			}
		}
	})
	var ses *lime.Session
	var eerr error
	ident := lime.Identity{Name: "alice", Domain: "cli.org"}
	start := time.Now()
	go func() {
		ctx, cancel := context.WithTimeout(context.Background(), time.Duration(p.CtxMs)*time.Millisecond)
		defer cancel()
		ses, eerr = ch.EstablishSession(ctx, compSelector, encSelector(p.EncSel), ident, authenticatorFor(p.Auth), "home")
		h.Add(0, "estab-return", map[string]interface{}{"established": ch.Established(), "state": string(ch.State()), "id": ch.ID(), "local": ch.LocalNode().String(), "remote": ch.RemoteNode().String()}, "", fmt.Sprint(eerr))
		returned.Set()
	}()
	sig := func(what string) string { return what }
	if !returned.WaitFor(time.Duration(p.CtxMs)*time.Millisecond + 2*time.Minute) {
		w.Violate("C08.establish-did-not-return", sig("hang"), "ClientChannel.EstablishSession did not return within 2 minutes after its %d ms context\n%s", p.CtxMs, h.Dump(60))
		peer.Close()
		return
	}
	_ = start
	_ = ses
	// truthful report
	var ret HEvent
	for _, e := range h.Ev {
		if e.Kind == "estab-return" {
			ret = e
		}
	}
	if ret.Frame["established"] == true {
		w.Count("client-reported-established")
	} else {
		w.Count("client-reported-error-or-not-established")
	}
	if ret.Frame["established"] == true {
		// the server's last word before the report
		var word map[string]interface{}
		for _, e := range h.Ev {
			if e.Seq >= ret.Seq {
				break
			}
			if e.Kind == "c-send" && isSessionFrame(e.Frame) { // the scripted side is the server here: its sends are recorded as c-send
				word = e.Frame
			}
		}
		if fstr(word, "state") != "established" {
			w.Violate("C08.established-without-servers-word", sig("state="+fstr(word, "state")), "the client reports an established channel but the server's last session envelope was %s\n%s", short(canonJSON(word), 200), h.Dump(60))
		} else {
			if fstr(ret.Frame, "id") != fstr(word, "id") {
				w.Violate("C08.adopted-other-session-id", sig("id"), "the client adopted session id %q, the established envelope carries %q", fstr(ret.Frame, "id"), fstr(word, "id"))
			}
			if fstr(ret.Frame, "local") != lime.ParseNode(fstr(word, "to")).String() || fstr(ret.Frame, "remote") != lime.ParseNode(fstr(word, "from")).String() {
				w.Violate("C08.adopted-other-nodes", sig("nodes"), "the client reports local=%q remote=%q, the established envelope says to=%q from=%q", fstr(ret.Frame, "local"), fstr(ret.Frame, "remote"), fstr(word, "to"), fstr(word, "from"))
			}
		}
	}
	if halfAdopted != "" {
		// (only when the established envelope carried them: a scripted server may leave them out)
		var word map[string]interface{}
		for _, e := range h.Ev {
			// the established envelope the client adopted: the first one (a channel becomes established once)
			if word == nil && e.Kind == "c-send" && isSessionFrame(e.Frame) && fstr(e.Frame, "state") == "established" && e.Step <= halfStep {
				word = e.Frame
			}
		}
		if fstr(word, "id") != "" && lime.ParseNode(fstr(word, "to")).String() != "" && lime.ParseNode(fstr(word, "from")).String() != "" {
			w.Violate("C08.established-before-adopting-session", sig("observer"), "an observer saw the channel report itself established before it had adopted the session id and nodes of the established envelope (%s)\n%s", halfAdopted, h.Dump(40))
		}
	}
	// echoes the latest id; credentials only on request
	var lastSrv map[string]interface{}
	first := true
	for _, e := range h.Ev {
		switch e.Kind {
		case "c-send":
			if isSessionFrame(e.Frame) {
				lastSrv = e.Frame
			}
		case "s-frame": // frames received from the real client
			if !isSessionFrame(e.Frame) {
				continue
			}
			if first {
				first = false
				continue
			}
			if lastSrv != nil && fstr(e.Frame, "id") != fstr(lastSrv, "id") {
				w.Violate("C08.id-not-echoed", sig("state="+fstr(e.Frame, "state")), "client envelope %s carries id %q, the server's latest session envelope had id %q\n%s", short(canonJSON(e.Frame), 160), fstr(e.Frame, "id"), fstr(lastSrv, "id"), h.Dump(60))
			}
			if _, has := e.Frame["authentication"]; has || e.Frame["scheme"] != nil {
				if fstr(lastSrv, "state") != "authenticating" {
					w.Violate("C08.credentials-without-request", sig("after="+fstr(lastSrv, "state")), "the client sent authentication data although the server's latest session envelope was %s\n%s", short(canonJSON(lastSrv), 160), h.Dump(60))
				}
			}
		}
	}
	scriptDone.WaitFor(5 * time.Minute)
	// the report stays truthful: once a later session envelope of the server that is not an
	// established one has had time to arrive, the channel does not call itself established anymore
	if ret.Frame["established"] == true && p.Faults.Benign() {
		var later map[string]interface{}
		junk := false // raw bytes in the stream: what follows them need not be an envelope to the client
		for _, e := range h.Ev {
			if e.Seq > ret.Seq && e.Kind == "c-send" && isSessionFrame(e.Frame) {
				later = e.Frame
			}
			if e.Seq > ret.Seq && e.Kind == "c-bytes" {
				junk = true
			}
		}
		if later != nil && !junk && fstr(later, "state") != "established" {
			if !w.Eventually(30*time.Second, func() bool { return !ch.Established() }) {
				w.Violate("C08.established-after-servers-later-word", sig("state="+fstr(later, "state")), "30 s after the server's latest session envelope (%s) the client channel still reports an established session (buffer size %d)\n%s", short(canonJSON(later), 200), p.Buf, h.Dump(60))
			}
		}
	}
	// closes when the server answered finished or failed (during the handshake)
	// (only when the client demonstrably consumed that answer: its own state shows it)
	consumed := fstr(ret.Frame, "state") == "failed" || fstr(ret.Frame, "state") == "finished"
	// ... or the order of events shows it: the terminal envelope was the only thing the server said
	// after the client's latest envelope, the client was therefore waiting for exactly it, and its
	// establishment returned afterwards, long before its deadline
	if !consumed && p.CtxMs >= 30000 && ret.Kind == "estab-return" && ret.AtMs < 20000 {
		termSeq, lastCli, others := -1, -1, 0
		for _, e := range h.Ev {
			switch {
			case e.Kind == "s-frame":
				lastCli, others = e.Seq, 0
			case e.Kind == "c-send" || e.Kind == "c-bytes":
				if st := fstr(e.Frame, "state"); e.Kind == "c-send" && (st == "failed" || st == "finished") && termSeq < 0 {
					if lastCli >= 0 && others == 0 {
						termSeq = e.Seq
					}
				}
				others++
			}
		}
		// (not when the server closed or reset the connection before the client returned: a reset
		// overtakes the envelope, the client may have seen nothing but the reset)
		gone := false
		for _, e := range h.Ev {
			if e.Kind == "c-close" && e.Seq < ret.Seq {
				gone = true
			}
		}
		if termSeq >= 0 && ret.Seq > termSeq && !gone {
			consumed = true
		}
	}
	if lastSent != nil && (fstr(lastSent, "state") == "failed" || fstr(lastSent, "state") == "finished") && p.Faults.Benign() && consumed {
		// (the client's end of the link, not what the scripted server can still read: the server
		// may have closed or reset its own end right behind the answer)
		closedByClient := func() bool { return peer.Link != nil && peer.Link.A.IsClosed() }
		if peer.Link == nil {
			closedByClient = func() bool { return peer.RemoteClosed().IsSet() }
		}
		if !w.Eventually(60*time.Second, closedByClient) {
			w.Violate("C08.not-closed-after-terminal", sig("state="+fstr(lastSent, "state")), "the server answered %s but the client did not close its connection within 60 s\n%s", fstr(lastSent, "state"), h.Dump(60))
		}
	}
	time.Sleep(2 * time.Second)
	ch.Close()
	if !peer.RemoteClosed().IsSet() {
		peer.Close()
	}
}

func init() {
	register(&PropDef{
		ID:        "C08",
		New:       func() interface{} { return &PlanC08{} },
		Gen:       genC08,
		Run:       runC08,
		MaxSim:    2 * time.Hour,
		PanicRule: "C08.panic",
		Rule: "plans = (scripted server word of <= 12 steps answering one step per client envelope over {protocol-correct answer, explicit session envelope in any of 7 states incl. regressions with id none/same/changed, option lists empty/unknown/duplicated, " +
			"confirmations not requested, scheme lists, round-trip data, arbitrary from/to, data envelope, garbage, half frame, FIN, RST, silence; a session envelope may be followed at once by FIN or RST}, what it sends after the client reported establishment, client encryption selector, authenticator, TLS configuration, " +
			"the scripted server upgrades to TLS behind its own confirmation and may shape its first TLS flight (late delimiter, cut offset); after establishment the channel stops reporting an established session once a later session envelope that is not established arrived; a terminal answer under another id still makes the client close (consumption inferred from the order of events); " +
			"EstablishSession deadline, server->client link faults); non-trivial = the real client connected; distinct = distinct (plan JSON, event-log hash)",
	})
}
