package harness

import (
	"context"
	"fmt"
	"strings"
	"time"

	lime "github.com/takenet/lime-go"
	"verifsim/simnet"
	"verifsim/simrt"
)

// FaultEv is one unrequested loss of the client's session.
type FaultEv struct {
	Kind    string `json:"kind"`     // srv-finish, srv-fail, fin, rst, half, garbage, nonenv, oversized, restart, srv-close, outage (the server is down for 8 s)
	Moment  int    `json:"moment"`   // 0 idle, 1 while the client is sending, 2 while the server is pushing, 3 during the re-establishment after the previous fault, 4 while a client send is stuck in the middle of its write (the server has stopped reading)
	QuietMs int    `json:"quiet_ms"` // time between the fault and the recovery probe
}

// PlanC19 is one client-recovery run.
// ScriptedC19 is the variant with a scripted server: the first session is established and
// dropped, then for WindowMs every new handshake is answered with the given session state (a
// server that is shutting down, say) and only afterwards a session is established again.
type ScriptedC19 struct {
	Answer   string `json:"answer"` // finished, failed, or close (no answer at all)
	WindowMs int    `json:"window_ms"`
	KeepOpen bool   `json:"keep_open"` // the server does not close behind its answer
}

type PlanC19 struct {
	Scripted *ScriptedC19 `json:"scripted,omitempty"`
	Conf     FullConf     `json:"conf"`
	Cli      CliSpec      `json:"cli"`
	Faults   []FaultEv    `json:"faults"`
}

var c19Kinds = []string{"srv-finish", "srv-fail", "fin", "rst", "half", "garbage", "nonenv", "oversized", "restart", "srv-close", "outage", "handler-gives-up"}

func genC19(t *simrt.Tape, tier string) interface{} {
	p := &PlanC19{}
	if t.Draw(8) == 0 {
		p.Scripted = &ScriptedC19{Answer: []string{"finished", "failed", "close"}[t.Draw(3)], WindowMs: []int{300, 1500, 6000}[t.Draw(3)], KeepOpen: t.Draw(2) == 0}
		p.Conf = FullConf{Listeners: []string{"tcp"}}
		p.Faults = []FaultEv{{Kind: "rst"}}
		return p
	}
	p.Conf = GenFullConf(t, 1)
	p.Conf.Listeners[0] = []string{"tcp", "tcp", "tcptls", "ws", "wss", "inproc"}[t.Draw(6)]
	p.Cli = GenCliSpec(t, 1)
	p.Cli.High = true
	p.Cli.ReadLimit = 4096
	FixSelector(p.Conf.Listeners[0], &p.Cli)
	for i := 1 + t.Draw(3); i > 0; i-- {
		p.Faults = append(p.Faults, FaultEv{Kind: c19Kinds[t.Draw(len(c19Kinds))], Moment: t.Draw(5), QuietMs: []int{0, 10, 1000, 7000}[t.Draw(4)]})
	}
	return p
}

// runC19Scripted: see ScriptedC19.
func runC19Scripted(w *World, p *PlanC19) {
	sc := p.Scripted
	if sc.WindowMs < 100 {
		sc.WindowMs = 100
	}
	if sc.WindowMs > 20000 {
		sc.WindowMs = 20000
	}
	h := &History{}
	rl, err := w.Net.Listen(tcpAddr(8450).String())
	if err != nil {
		return
	}
	defer rl.Close()
	var dropAt time.Duration = -1
	nConn, nEst := 0, 0
	handshake := func(peer *RawPeer, sid string) bool {
		if !peer.AwaitFrame(0, 30*time.Second) {
			return false
		}
		peer.SendJSON(map[string]interface{}{"state": "authenticating", "id": sid, "from": nodeVariants[0], "schemeOptions": []string{"guest"}})
		if !peer.AwaitFrame(1, 30*time.Second) {
			return false
		}
		peer.SendJSON(map[string]interface{}{"state": "established", "id": sid, "from": nodeVariants[0], "to": "c19@cli.org/home"})
		nEst++
		return true
	}
	go func() {
		for {
			c, err := rl.Accept()
			if err != nil {
				return
			}
			nConn++
			k := nConn
			peer := NewRawTCPFromConn(w, h, k, c.(*simnet.Conn))
			go func() {
				sid := fmt.Sprintf("scr-%d", k)
				switch {
				case dropAt < 0:
					if handshake(peer, sid) {
						time.Sleep(50 * time.Millisecond)
						dropAt = simrt.Now()
						peer.Reset()
					}
				case simrt.Now() < dropAt+time.Duration(sc.WindowMs)*time.Millisecond:
					if !peer.AwaitFrame(0, 30*time.Second) {
						return
					}
					if sc.Answer != "close" {
						peer.SendJSON(map[string]interface{}{"state": sc.Answer, "id": sid, "from": nodeVariants[0], "reason": map[string]interface{}{"code": 1, "description": "not now"}})
					}
					if !sc.KeepOpen || sc.Answer == "close" {
						peer.Close()
					} else {
						peer.RemoteClosed().WaitFor(30 * time.Second)
						peer.Close()
					}
				default:
					if handshake(peer, sid) {
						peer.SendJSON(map[string]interface{}{"id": "pushed-" + sid, "type": "text/plain", "content": "hello again"})
						peer.RemoteClosed().WaitFor(10 * time.Minute)
					}
				}
			}()
		}
	}()
	got := NewFlag()
	mux := &lime.EnvelopeMux{}
	mux.MessageHandlerFunc(nil, func(ctx context.Context, m *lime.Message, s lime.Sender) error {
		if strings.HasPrefix(m.ID, "pushed-") {
			got.Set()
		}
		return nil
	})
	cfg := lime.NewClientConfig()
	cfg.Node = lime.Node{Identity: lime.Identity{Name: "c19", Domain: "cli.org"}, Instance: "home"}
	cfg.ChannelBufferSize = 1
	cfg.Authenticator = authenticatorFor("guest")
	cfg.NewTransport = func(ctx context.Context) (lime.Transport, error) {
		return lime.DialTcp(ctx, tcpAddr(8450), &lime.TCPConfig{})
	}
	hc := lime.NewClient(cfg, mux)
	defer w.Bounded("closing the client", time.Minute, func() { hc.Close() })
	ectx, ecancel := context.WithTimeout(context.Background(), time.Minute)
	err = hc.Establish(ectx)
	ecancel()
	if err != nil {
		return
	}
	w.Armed = true
	w.Count("scripted-server-" + sc.Answer)
	if !got.WaitFor(time.Duration(sc.WindowMs)*time.Millisecond + 150*time.Second) {
		w.Violate("C19.client-did-not-recover", "scripted server answer="+sc.Answer, "%d s after a server that answered new handshakes with %q for %d ms became reachable again, no pushed message had reached the client's handler (%d connections, %d sessions established by the server)\n%s", 150, sc.Answer, sc.WindowMs, nConn, nEst, h.Dump(30))
	}
}

func runC19(w *World, pi interface{}) {
	p := pi.(*PlanC19)
	if p.Scripted != nil {
		runC19Scripted(w, p)
		return
	}
	if len(p.Conf.Listeners) == 0 || len(p.Faults) == 0 {
		return
	}
	p.Conf.Listeners = p.Conf.Listeners[:1]
	p.Cli.L = 0
	p.Cli.High = true
	kind := p.Conf.Listeners[0]
	FixSelector(kind, &p.Cli)
	if len(p.Faults) > 4 {
		p.Faults = p.Faults[:4]
	}
	srvGot := map[string]string{} // message id -> session id it arrived on
	var f *Full
	startServer := func() bool {
		var err error
		conf := p.Conf
		if f != nil {
			for _, a := range f.InProc {
				conf.InProcFixed = append(conf.InProcFixed, string(a))
			}
		}
		nf, err := StartFull(w, conf, 8400, nil)
		if err != nil {
			return false
		}
		nf.CliReadLimit = 4096
		nf.OnEnv = func(ctx context.Context, k int, env interface{}, s lime.Sender) error {
			if m, ok := env.(*lime.Message); ok {
				sid, _ := lime.ContextSessionID(ctx)
				srvGot[m.ID] = sid
			}
			return nil
		}
		f = nf
		return f.WaitListening()
	}
	if !startServer() {
		return
	}
	defer func() { f.Close() }()
	cliGot := map[string]bool{}
	mux := &lime.EnvelopeMux{}
	mux.MessageHandlerFunc(nil, func(ctx context.Context, m *lime.Message, s lime.Sender) error {
		cliGot[m.ID] = true
		if strings.HasPrefix(m.ID, "giveup-") {
			// a handler that ran into a timeout of its own and says so
			return fmt.Errorf("handler gave up on %s: %w", m.ID, context.DeadlineExceeded)
		}
		return nil
	})
	mux.NotificationHandlerFunc(nil, func(ctx context.Context, n *lime.Notification) error { return nil })
	mux.RequestCommandHandlerFunc(nil, func(ctx context.Context, c *lime.RequestCommand, s lime.Sender) error { return nil })
	mux.ResponseCommandHandlerFunc(nil, func(ctx context.Context, c *lime.ResponseCommand, s lime.Sender) error { return nil })
	// the in-process address survives a restart of the server
	var hc *lime.Client
	{
		cfg := p.Cli
		hcMux := mux
		hc = newRecoveringClient(func() *Full { return f }, cfg, hcMux)
	}
	defer hc.Close()
	sig := func(what string) string { return fmt.Sprintf("%s transport=%s", what, kind) }
	nSend := 0
	send := func(timeout time.Duration) (string, error) {
		nSend++
		id := fmt.Sprintf("m%d", nSend)
		txt := lime.TextDocument(id)
		m := &lime.Message{}
		m.SetContent(&txt).SetID(id)
		ctx, cancel := context.WithTimeout(context.Background(), timeout)
		defer cancel()
		return id, hc.SendMessage(ctx, m)
	}
	var okSends []string
	if _, err := send(2 * time.Minute); err != nil {
		w.Count("not-established")
		return
	}
	w.Armed = true
	currentSession := func() *SessInfo {
		for i := len(f.SessOrd) - 1; i >= 0; i-- {
			if s := f.Sess[f.SessOrd[i]]; s != nil && s.FinAt < 0 {
				return s
			}
		}
		return nil
	}
	for round, fe := range p.Faults {
		// make sure a session is up (unless this fault is meant to land during re-establishment)
		if fe.Moment != 3 || round == 0 {
			if _, err := send(2 * time.Minute); err != nil {
				w.Violate("C19.no-session-before-fault", sig("round"), "round %d: the client could not send on a reachable server before the fault: %v", round, err)
				return
			}
			w.Eventually(10*time.Second, func() bool { return currentSession() != nil })
		}
		lost := currentSession()
		lostID := ""
		if lost != nil {
			lostID = lost.ID
		}
		var link *simnet.Link
		if n := w.Net.LinkCount(); n > 0 {
			link = w.Net.GetLink(n - 1)
		}
		// traffic at the moment of the fault
		bg := NewFlag()
		switch fe.Moment {
		case 1:
			go func() {
				defer bg.Set()
				for i := 0; i < 5; i++ {
					if id, err := send(5 * time.Second); err == nil {
						okSends = append(okSends, id)
					}
				}
			}()
		case 2:
			go func() {
				defer bg.Set()
				if lost != nil {
					for i := 0; i < 5; i++ {
						txt := lime.TextDocument("push")
						m := &lime.Message{}
						m.SetContent(&txt).SetID(fmt.Sprintf("bgpush%d.%d", round, i))
						ctx, cancel := context.WithTimeout(context.Background(), 5*time.Second)
						lost.Ch.SendMessage(ctx, m)
						cancel()
					}
				}
			}()
		case 4:
			bg.Set()
			// (not under TLS: crypto/tls serialises an alert it wants to send behind the stuck write
			// with a sync.Mutex, on which a goroutine does not block durably - DESIGN.md, limits)
			if link != nil && (kind == "tcp" || kind == "ws") {
				// the server stops reading and the window is small: a send with a context far beyond
				// the recovery bound gets stuck in the middle of its write, and stays there
				link.AB.SetCapacity(64)
				link.AB.StallFor(3 * time.Hour)
				w.Count("stalled-send-at-the-loss")
				go func() {
					txt := lime.TextDocument(strings.Repeat("s", 3000))
					m := &lime.Message{}
					m.SetContent(&txt).SetID(fmt.Sprintf("stuck%d", round))
					sctx, scancel := context.WithTimeout(context.Background(), 2*time.Hour)
					defer scancel()
					hc.SendMessage(sctx, m)
				}()
				time.Sleep(200 * time.Millisecond)
			}
		default:
			bg.Set()
		}
		// the fault
		w.Count("fault-" + fe.Kind)
		fk := fe.Kind
		if kind == "inproc" && (fk == "fin" || fk == "rst" || fk == "half" || fk == "garbage" || fk == "nonenv" || fk == "oversized") {
			fk = "srv-close"
		}
		ctx, cancel := context.WithTimeout(context.Background(), 10*time.Second)
		switch fk {
		case "srv-finish":
			if lost != nil {
				lost.Ch.FinishSession(ctx)
			}
		case "srv-fail":
			if lost != nil {
				lost.Ch.FailSession(ctx, &lime.Reason{Code: 5, Description: "kicked"})
			}
		case "srv-close":
			if lost != nil {
				lost.Ch.Close()
			}
		case "handler-gives-up":
			// the client's own handler returns an error that wraps a context error (a timeout of its
			// own), and the server drops the session right behind the message that caused it
			if lost != nil {
				txt := lime.TextDocument("too slow for you")
				m := &lime.Message{}
				m.SetContent(&txt).SetID(fmt.Sprintf("giveup-%d", round))
				lost.Ch.SendMessage(ctx, m)
				time.Sleep(50 * time.Millisecond)
				lost.Ch.Close()
			}
		case "fin":
			if link != nil {
				link.Cut(simnet.CutFIN)
			}
		case "rst":
			if link != nil {
				link.Cut(simnet.CutRST)
			}
		case "half":
			if link != nil {
				link.B.CloseWrite()
			}
		case "garbage":
			if link != nil {
				link.BA.Inject([]byte("\x00\x01}{ this is not json\n"))
			}
		case "nonenv":
			if link != nil {
				link.BA.Inject([]byte("{\"foo\":\"bar\"}\n"))
			}
		case "oversized":
			if link != nil {
				link.BA.Inject([]byte(exactMessage("big", 20000) + "\n"))
			}
		case "restart":
			f.Close()
			if !startServer() {
				cancel()
				return
			}
		case "outage":
			// the server is gone for a while: the idle client's own listener keeps trying in the background
			f.Close()
			time.Sleep(8 * time.Second)
			if !startServer() {
				cancel()
				return
			}
		}
		cancel()
		bg.WaitFor(time.Minute)
		time.Sleep(time.Duration(fe.QuietMs) * time.Millisecond)
		// faults have stopped and the server is reachable: the client recovers within the bound
		var id string
		var err error
		deadline := time.Now().Add(2 * time.Minute)
		attempts := 0
		for {
			attempts++
			id, err = send(15 * time.Second)
			if err == nil || !time.Now().Before(deadline) {
				break
			}
			time.Sleep(500 * time.Millisecond)
		}
		if err != nil {
			w.Violate("C19.client-did-not-recover", sig("after "+fk), "round %d: after %s the client stayed wedged: %d send attempts over 120 s against a reachable server all failed, the last with: %v", round, fk, attempts, err)
			return
		}
		okSends = append(okSends, id)
		if !w.Eventually(20*time.Second, func() bool { return srvGot[id] != "" }) {
			if fe.QuietMs >= 1000 {
				w.Violate("C19.send-succeeded-but-not-received", sig("after "+fk), "round %d: %d ms after %s SendMessage(%s) returned nil but the server never received it (the client wrote into a dead session)", round, fe.QuietMs, fk, id)
				return
			}
			// right after the loss a socket may still accept bytes for a peer that is gone: probe again
			time.Sleep(2 * time.Second)
			id, err = send(2 * time.Minute)
			if err != nil || !w.Eventually(20*time.Second, func() bool { return srvGot[id] != "" }) {
				w.Violate("C19.client-did-not-recover", sig("after "+fk), "round %d: after %s a second probe 2 s later also did not reach the server (send error: %v)", round, fk, err)
				return
			}
		}
		// inbound envelopes on the client's current session reach the registered handler; which session
		// that is gets settled by a second probe, once the client has had time to notice the loss
		time.Sleep(3 * time.Second)
		id2, err2 := send(2 * time.Minute)
		if err2 != nil || !w.Eventually(20*time.Second, func() bool { return srvGot[id2] != "" }) {
			w.Violate("C19.client-did-not-recover", sig("after "+fk), "round %d: after %s a later probe failed again: %v", round, fk, err2)
			return
		}
		id = id2
		if srvGot[id] == lostID && fk != "half" {
			w.Violate("C19.probe-on-the-lost-session", sig("after "+fk), "round %d: seconds after %s the client still sends on the session %s that was lost", round, fk, lostID)
		}
		cur := f.Sess[srvGot[id]]
		if cur == nil {
			w.Violate("C19.unknown-session", sig("after "+fk), "round %d: the probe arrived on session %q, which the server does not know", round, srvGot[id])
			return
		}
		pid := fmt.Sprintf("push%d", round)
		txt := lime.TextDocument(pid)
		pm := &lime.Message{}
		pm.SetContent(&txt).SetID(pid)
		pctx, pcancel := context.WithTimeout(context.Background(), 30*time.Second)
		perr := cur.Ch.SendMessage(pctx, pm)
		pcancel()
		if perr == nil && !w.Eventually(30*time.Second, func() bool { return cliGot[pid] }) {
			w.Violate("C19.client-deaf-after-recovery", sig("after "+fk), "round %d: after %s a message pushed by the server on the client's current session %s never reached the client's registered handler", round, fk, cur.ID)
			return
		}
	}
	// (sends racing with the loss itself may legitimately be accepted by a socket whose peer is already gone)
	_ = okSends
	_ = strings.Contains
}

// newRecoveringClient builds a high-level client whose transport factory always dials the
// current server instance.
func newRecoveringClient(cur func() *Full, c CliSpec, mux *lime.EnvelopeMux) *lime.Client {
	cfg := lime.NewClientConfig()
	cfg.Node = lime.Node{Identity: clientIdentity(c, 0), Instance: "inst0"}
	cfg.ChannelBufferSize = c.Buf
	cfg.CompSelector = compSelector
	cfg.EncryptSelector = encSelector(c.Enc)
	cfg.Authenticator = authenticatorFor(c.Auth)
	cfg.NewTransport = func(ctx context.Context) (lime.Transport, error) { return cur().Dial(ctx, 0, c.IPBuf) }
	return lime.NewClient(cfg, mux)
}

func init() {
	register(&PropDef{
		ID:           "C19",
		New:          func() interface{} { return &PlanC19{} },
		Gen:          genC19,
		Run:          runC19,
		MaxSim:       4 * time.Hour,
		MaxSteps:     80000,
		PanicRule:    "C19.panic",
		LivelockRule: "C19.listener-busy-loop",
		Rule: "plans = (real high-level Client with background listener, reconnect loop and back-off on the fake clock, against a real Server over tcp/tcp+tls/ws/wss/in-process; 1-3 rounds of an unrequested loss: server-side finish or fail, server-side close, FIN, RST, half-close, " +
			"undecodable bytes, JSON that is no envelope, an envelope above the client's read limit, server restart, an 8 s outage of the server; landing while idle, while the client is sending, while the server is pushing, during the re-establishment after the previous loss, or while a client send is stuck in the middle of its write behind a server that stopped reading; quiet period 0-7 s); " +
			"oracle once faults stop: SendMessage succeeds within 120 s on a session the server serves, a pushed message reaches the registered handler, every successful send was received, no busy loop (steps at one simulated instant), no panic; " +
			"one plan in eight runs against a scripted server that establishes, drops the session, answers new handshakes with finished / failed / nothing for 0.3-6 s and then establishes again and pushes a message; non-trivial = first session established; distinct = distinct (plan JSON, event-log hash)",
	})
}
