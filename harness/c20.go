package harness

import (
	"context"
	"errors"
	"fmt"
	"reflect"
	"strconv"
	"strings"
	"time"

	lime "github.com/takenet/lime-go"
	"verifsim/simrt"
)

// HSpec is one registered handler.
type HSpec struct {
	Pred    int `json:"pred"`               // 0 nil predicate, 1 always, 2 never, 3 even sequence number, 4 odd, 5 kind-specific field test
	ErrAt   int `json:"err_at"`             // 0 never, k: returns an error at its k-th call
	DelayMs int `json:"delay_ms,omitempty"` // the handler takes this long
}

// PlanC20 is one dispatch run.
type PlanC20 struct {
	Conf  FullConf   `json:"conf"`
	Cli   CliSpec    `json:"cli"`
	Role  string     `json:"role"`  // server: the table is on the server; client: on a client-side mux
	Table [4][]HSpec `json:"table"` // per kind, in registration order
	Envs  []EnvSpec  `json:"envs"`  // inbound envelopes, sent in this order by one sender
	// PingLast (server role): the builder's AutoReplyPings() is called after the table was
	// registered, and a ping request travels in the middle of the stream: it belongs to the
	// earliest handler of the table that accepts it, and to the auto-reply only if none does
	PingLast bool `json:"ping_last,omitempty"`
	GapMs    int  `json:"gap_ms"`
	// EndEarly: 1 = the sending party finishes the session right after its last send, 2 = it closes
	// its connection instead; either way handlers may still be running when the session ends.
	EndEarly int `json:"end_early,omitempty"`
	// LatePC: before the stream, the receiving side gives up on a command request of its own
	// (ProcessCommand with a 50 ms context, never answered in time); the stream then carries a
	// response bearing that id, which by then is an inbound envelope like any other.
	LatePC bool `json:"late_pc,omitempty"`
	// ByValue: the handlers are registered through the interface-taking methods as plain struct
	// values (the first of each kind is the zero value of its type) instead of the *Func helpers
	ByValue bool `json:"by_value,omitempty"`
}

func genC20(t *simrt.Tape, tier string) interface{} {
	p := &PlanC20{}
	p.Conf = GenFullConf(t, 1)
	p.Cli = GenCliSpec(t, 1)
	p.Cli.High = false
	FixSelector(p.Conf.Listeners[0], &p.Cli)
	p.Role = []string{"server", "server", "client"}[t.Draw(3)]
	for k := 0; k < 4; k++ {
		for i := t.Draw(5); i > 0; i-- {
			h := HSpec{Pred: t.Draw(6)}
			if t.Draw(8) == 0 {
				h.ErrAt = 1 + t.Draw(4)
			}
			h.DelayMs = []int{0, 0, 0, 0, 3, 150}[t.Draw(6)]
			p.Table[k] = append(p.Table[k], h)
		}
	}
	n := 1 + t.Draw(20)
	if t.Draw(4) == 0 {
		n = 10 + t.Draw(40)
	}
	for i := 0; i < n; i++ {
		p.Envs = append(p.Envs, GenEnvSpec(t, 60))
	}
	p.GapMs = []int{0, 0, 1, 20}[t.Draw(4)]
	p.EndEarly = []int{0, 0, 0, 1, 1, 2}[t.Draw(6)]
	p.LatePC = t.Draw(4) == 0
	p.ByValue = t.Draw(4) == 0
	// (in-process only: over the other transports the stock ping reply does not decode, see C11)
	p.PingLast = p.Role == "server" && p.Conf.Listeners[0] == "inproc" && t.Draw(2) == 0
	return p
}

func seqOf(id string) int {
	if i := strings.LastIndex(id, "."); i >= 0 {
		n, _ := strconv.Atoi(id[i+1:])
		return n
	}
	return 0
}

func predAccepts(pred int, kind int, env interface{}) bool {
	_, id, _ := Describe(env)
	switch pred {
	case 0, 1:
		return true
	case 2:
		return false
	case 3:
		return seqOf(id)%2 == 0
	case 4:
		return seqOf(id)%2 == 1
	default:
		switch e := env.(type) {
		case *lime.Message:
			_, ok := e.Content.(*lime.TextDocument)
			return ok
		case *lime.Notification:
			return e.Event == lime.NotificationEventReceived || e.Event == lime.NotificationEventFailed
		case *lime.RequestCommand:
			return e.Method == lime.CommandMethodGet || e.Method == lime.CommandMethodSet
		case *lime.ResponseCommand:
			return e.Status == lime.CommandStatusSuccess
		}
	}
	return false
}

type invocation struct {
	kind, idx int
	id, canon string
	seq       int
	erred     bool
}

func runC20(w *World, pi interface{}) {
	p := pi.(*PlanC20)
	if len(p.Conf.Listeners) == 0 || p.Conf.Listeners[0] != "inproc" || p.Role != "server" {
		p.PingLast = false
	}
	if len(p.Conf.Listeners) == 0 || len(p.Envs) == 0 {
		return
	}
	p.Conf.Listeners = p.Conf.Listeners[:1]
	p.Cli.L = 0
	FixSelector(p.Conf.Listeners[0], &p.Cli)
	for k := range p.Table {
		if len(p.Table[k]) > 6 {
			p.Table[k] = p.Table[k][:6]
		}
	}
	var inv []invocation
	calls := map[string]int{}
	nseq := 0
	record := func(kind, idx int, env interface{}) error {
		id, canon := "<nil>", "<nil envelope>"
		if rv := reflect.ValueOf(env); env != nil && !(rv.Kind() == reflect.Ptr && rv.IsNil()) {
			_, id, canon = Describe(env)
		}
		key := fmt.Sprintf("%d.%d", kind, idx)
		calls[key]++
		nseq++
		iv := invocation{kind: kind, idx: idx, id: id, canon: canon, seq: nseq}
		h := p.Table[kind][idx]
		var err error
		if h.ErrAt > 0 && calls[key] == h.ErrAt {
			iv.erred = true
			err = errors.New("handler failed on purpose")
		}
		inv = append(inv, iv)
		if h.DelayMs > 0 {
			time.Sleep(time.Duration(h.DelayMs) * time.Millisecond)
		}
		return err
	}
	mkPred := func(kind, pred int) func(env interface{}) bool {
		return func(env interface{}) bool {
			if rv := reflect.ValueOf(env); env == nil || (rv.Kind() == reflect.Ptr && rv.IsNil()) {
				return pred <= 1 // a predicate that does not look at the envelope
			}
			return predAccepts(pred, kind, env)
		}
	}
	// registration through the public API, in table order
	c20cur = &c20Hooks{
		match:  func(kind, idx int, env interface{}) bool { return mkPred(kind, p.Table[kind][idx].Pred)(env) },
		record: record,
	}
	type registrar interface {
		MessageHandler(lime.MessageHandler)
		NotificationHandler(lime.NotificationHandler)
		RequestCommandHandler(lime.RequestCommandHandler)
		ResponseCommandHandler(lime.ResponseCommandHandler)
		MessageHandlerFunc(lime.MessagePredicate, lime.MessageHandlerFunc)
		NotificationHandlerFunc(lime.NotificationPredicate, lime.NotificationHandlerFunc)
		RequestCommandHandlerFunc(lime.RequestCommandPredicate, lime.RequestCommandHandlerFunc)
		ResponseCommandHandlerFunc(lime.ResponseCommandPredicate, lime.ResponseCommandHandlerFunc)
	}
	register := func(m registrar) {
		if p.ByValue {
			for i := range p.Table[KMessage] {
				m.MessageHandler(valMsgH{i})
			}
			for i := range p.Table[KNotification] {
				m.NotificationHandler(valNotH{i})
			}
			for i := range p.Table[KRequest] {
				m.RequestCommandHandler(valReqH{i})
			}
			for i := range p.Table[KResponse] {
				m.ResponseCommandHandler(valRespH{i})
			}
			return
		}
		for i, h := range p.Table[KMessage] {
			i, pr := i, mkPred(KMessage, h.Pred)
			var pred lime.MessagePredicate
			if h.Pred != 0 {
				pred = func(m *lime.Message) bool { return pr(m) }
			}
			m.MessageHandlerFunc(pred, func(ctx context.Context, m *lime.Message, s lime.Sender) error { return record(KMessage, i, m) })
		}
		for i, h := range p.Table[KNotification] {
			i, pr := i, mkPred(KNotification, h.Pred)
			var pred lime.NotificationPredicate
			if h.Pred != 0 {
				pred = func(n *lime.Notification) bool { return pr(n) }
			}
			m.NotificationHandlerFunc(pred, func(ctx context.Context, n *lime.Notification) error { return record(KNotification, i, n) })
		}
		for i, h := range p.Table[KRequest] {
			i, pr := i, mkPred(KRequest, h.Pred)
			var pred lime.RequestCommandPredicate
			if h.Pred != 0 {
				pred = func(c *lime.RequestCommand) bool { return pr(c) }
			}
			m.RequestCommandHandlerFunc(pred, func(ctx context.Context, c *lime.RequestCommand, s lime.Sender) error { return record(KRequest, i, c) })
		}
		for i, h := range p.Table[KResponse] {
			i, pr := i, mkPred(KResponse, h.Pred)
			var pred lime.ResponseCommandPredicate
			if h.Pred != 0 {
				pred = func(c *lime.ResponseCommand) bool { return pr(c) }
			}
			m.ResponseCommandHandlerFunc(pred, func(ctx context.Context, c *lime.ResponseCommand, s lime.Sender) error {
				return record(KResponse, i, c)
			})
		}
	}
	var f *Full
	var err error
	if p.Role == "server" {
		f, err = StartFull(w, p.Conf, 7800, func(b *lime.ServerBuilder, f *Full) {
			register(builderRegistrar{b})
			if p.PingLast {
				b.AutoReplyPings()
			}
		})
	} else {
		f, err = StartFull(w, p.Conf, 7800, nil)
	}
	if err != nil {
		return
	}
	defer f.Close()
	if !f.WaitListening() {
		return
	}
	ctx, cancel := context.WithTimeout(context.Background(), 5*time.Minute)
	ch, ses, err := f.ConnectChannel(ctx, p.Cli, 0)
	cancel()
	if err != nil || ses == nil || ses.State != lime.SessionStateEstablished {
		w.Count("not-established")
		return
	}
	defer ch.Close()
	var sch *lime.ServerChannel
	w.Eventually(30*time.Second, func() bool {
		if si := f.Sess[ses.ID]; si != nil {
			sch = si.Ch
			return true
		}
		return false
	})
	if sch == nil {
		return
	}
	w.Armed = true
	var sender lime.Sender = ch
	listenRet := NewFlag()
	var listenErr error
	if p.Role == "client" {
		sender = sch
		mux := &lime.EnvelopeMux{}
		register(mux)
		go func() {
			listenErr = mux.ListenClient(context.Background(), ch)
			listenRet.Set()
		}()
	} else {
		// the client drains whatever the server might send
		go func() {
			for range ch.MsgChan() {
			}
		}()
		go func() {
			for range ch.NotChan() {
			}
		}()
		go func() {
			for range ch.ReqCmdChan() {
			}
		}()
		go func() {
			for range ch.RespCmdChan() {
			}
		}()
	}
	var lateResp *Env
	if p.LatePC {
		req := &lime.RequestCommand{}
		req.ID = "in.9999"
		req.Method = lime.CommandMethodGet
		req.SetURIString("/late")
		pctx, pcancel := context.WithTimeout(context.Background(), 50*time.Millisecond)
		var perr error
		w.Bounded("the abandoned ProcessCommand", time.Minute, func() {
			if p.Role == "client" {
				_, perr = ch.ProcessCommand(pctx, req)
			} else {
				_, perr = sch.ProcessCommand(pctx, req)
			}
		})
		pcancel()
		if perr != nil {
			w.Count("abandoned-command-before-the-stream")
			lateResp = BuildEnvelope(EnvSpec{Kind: KResponse, Seed: 77, Size: 10}, "in.9999")
		}
	}
	var sent []*Env
	for i, es := range p.Envs {
		e := BuildEnvelope(es, fmt.Sprintf("in.%d", i))
		if p.PingLast && p.Role == "server" && i == len(p.Envs)/2 {
			// (an ordinary request command, whose method and URI happen to be those of a ping)
			ping := &lime.RequestCommand{}
			ping.ID = fmt.Sprintf("in.%d", i)
			ping.Method = lime.CommandMethodGet
			ping.SetURIString("/ping")
			e = &Env{ID: ping.ID, Kind: KRequest, Req: ping, Canon: canonJSON(ping)}
		}
		if lateResp != nil && i == len(p.Envs)/2 {
			// the late answer to the abandoned command travels in the middle of the stream
			sctx, scancel := context.WithTimeout(context.Background(), 30*time.Second)
			err := sendVia(sctx, sender, lateResp)
			scancel()
			if err != nil {
				break
			}
			sent = append(sent, lateResp)
		}
		sctx, scancel := context.WithTimeout(context.Background(), 30*time.Second)
		err := sendVia(sctx, sender, e)
		scancel()
		if err != nil {
			break
		}
		sent = append(sent, e)
		if p.GapMs > 0 {
			time.Sleep(time.Duration(p.GapMs) * time.Millisecond)
		}
	}
	if p.EndEarly != 0 && len(sent) == len(p.Envs) {
		// the session ends while handlers may still be running or envelopes wait in the streams
		ectx, ecancel := context.WithTimeout(context.Background(), 30*time.Second)
		switch {
		case p.EndEarly == 1 && p.Role == "server":
			_, _ = ch.FinishSession(ectx)
		case p.EndEarly == 1:
			_ = sch.FinishSession(ectx)
		case p.Role == "server":
			_ = ch.Close()
		default:
			_ = sch.Close()
		}
		ecancel()
		w.Count(fmt.Sprintf("ended-early-%d", p.EndEarly))
		time.Sleep(20 * time.Second)
	}
	// expected dispatch
	expect := func(e *Env) int {
		for i, h := range p.Table[e.Kind] {
			if predAccepts(h.Pred, e.Kind, e.Value()) {
				return i
			}
		}
		return -1
	}
	nExpected := 0
	for _, e := range sent {
		if expect(e) >= 0 {
			nExpected++
		}
	}
	w.Eventually(2*time.Minute, func() bool {
		if p.EndEarly != 0 {
			return true
		}
		if len(inv) >= nExpected {
			return true
		}
		for _, iv := range inv {
			if iv.erred {
				return true
			}
		}
		return false
	})
	time.Sleep(time.Second)
	sig := func(what string) string { return fmt.Sprintf("%s role=%s", what, p.Role) }
	byID := map[string]*Env{}
	for _, e := range sent {
		byID[fmt.Sprintf("%d|%s", e.Kind, e.ID)] = e
	}
	seen := map[string]int{}
	erredAt := -1
	for i, iv := range inv {
		key := fmt.Sprintf("%d|%s", iv.kind, iv.id)
		e := byID[key]
		if e == nil {
			w.Violate("C20.dispatched-unknown-envelope", sig(kindNames[iv.kind]), "a %s handler ran for id %q, which was not sent", kindNames[iv.kind], iv.id)
			continue
		}
		seen[key]++
		if seen[key] > 1 {
			w.Violate("C20.dispatched-more-than-once", sig(kindNames[iv.kind]), "%s %q was dispatched %d times (handlers %v)", kindNames[iv.kind], iv.id, seen[key], p.Table[iv.kind])
		}
		if want := expect(e); want != iv.idx {
			w.Violate("C20.wrong-handler", sig(kindNames[iv.kind]), "%s %q went to handler #%d, the first matching one is #%d (table %v)", kindNames[iv.kind], iv.id, iv.idx, want, p.Table[iv.kind])
		}
		if iv.canon != e.Canon {
			w.Violate("C20.envelope-altered", sig(kindNames[iv.kind]), "%s %q reached its handler altered: %s vs sent %s", kindNames[iv.kind], iv.id, short(iv.canon, 200), short(e.Canon, 200))
		}
		if erredAt >= 0 {
			w.Violate("C20.dispatch-after-handler-error", sig(kindNames[iv.kind]), "handler ran for %s %q after an earlier handler of the session had returned an error", kindNames[iv.kind], iv.id)
		}
		if iv.erred && erredAt < 0 {
			erredAt = i
		}
	}
	if p.EndEarly != 0 {
		// what was still undelivered when the session ended is not owed a dispatch; the rules
		// above (nothing unknown, nothing twice, right handler, unaltered) are
	} else if erredAt < 0 {
		for _, e := range sent {
			key := fmt.Sprintf("%d|%s", e.Kind, e.ID)
			if want := expect(e); want >= 0 && seen[key] == 0 {
				w.Violate("C20.not-dispatched", sig(kindNames[e.Kind]), "%s %q matches handler #%d but no handler ran for it (%d of %d expected invocations happened; table %v)", kindNames[e.Kind], e.ID, want, len(inv), nExpected, p.Table)
				break
			}
		}
	} else if p.Role == "server" {
		// the server finishes the session whose handler failed
		if !w.Eventually(30*time.Second, func() bool { return ch.State() == lime.SessionStateFinished }) {
			w.Violate("C20.session-not-finished-after-handler-error", sig("server"), "a server handler returned an error but the client did not observe a finished session within 30 s (client state %s)", ch.State())
		}
	} else {
		if !listenRet.WaitFor(30 * time.Second) {
			w.Violate("C20.loop-not-stopped-after-handler-error", sig("client"), "a client handler returned an error but ListenClient did not return")
		} else if listenErr == nil {
			w.Violate("C20.handler-error-swallowed", sig("client"), "a client handler returned an error but ListenClient returned nil")
		}
	}
}

type builderRegistrar struct{ b *lime.ServerBuilder }

func (r builderRegistrar) MessageHandler(h lime.MessageHandler)           { r.b.MessageHandler(h) }
func (r builderRegistrar) NotificationHandler(h lime.NotificationHandler) { r.b.NotificationHandler(h) }
func (r builderRegistrar) RequestCommandHandler(h lime.RequestCommandHandler) {
	r.b.RequestCommandHandler(h)
}
func (r builderRegistrar) ResponseCommandHandler(h lime.ResponseCommandHandler) {
	r.b.ResponseCommandHandler(h)
}

// value handlers: plain structs used by value; the one with index 0 is the zero value of its type
type c20Hooks struct {
	match  func(kind, idx int, env interface{}) bool
	record func(kind, idx int, env interface{}) error
}

var c20cur *c20Hooks

type valMsgH struct{ Idx int }
type valNotH struct{ Idx int }
type valReqH struct{ Idx int }
type valRespH struct{ Idx int }

func (h valMsgH) Match(m *lime.Message) bool { return c20cur.match(KMessage, h.Idx, m) }
func (h valMsgH) Handle(ctx context.Context, m *lime.Message, s lime.Sender) error {
	return c20cur.record(KMessage, h.Idx, m)
}
func (h valNotH) Match(n *lime.Notification) bool { return c20cur.match(KNotification, h.Idx, n) }
func (h valNotH) Handle(ctx context.Context, n *lime.Notification) error {
	return c20cur.record(KNotification, h.Idx, n)
}
func (h valReqH) Match(c *lime.RequestCommand) bool { return c20cur.match(KRequest, h.Idx, c) }
func (h valReqH) Handle(ctx context.Context, c *lime.RequestCommand, s lime.Sender) error {
	return c20cur.record(KRequest, h.Idx, c)
}
func (h valRespH) Match(c *lime.ResponseCommand) bool { return c20cur.match(KResponse, h.Idx, c) }
func (h valRespH) Handle(ctx context.Context, c *lime.ResponseCommand, s lime.Sender) error {
	return c20cur.record(KResponse, h.Idx, c)
}

func (r builderRegistrar) MessageHandlerFunc(p lime.MessagePredicate, f lime.MessageHandlerFunc) {
	r.b.MessageHandlerFunc(p, f)
}
func (r builderRegistrar) NotificationHandlerFunc(p lime.NotificationPredicate, f lime.NotificationHandlerFunc) {
	r.b.NotificationHandlerFunc(p, f)
}
func (r builderRegistrar) RequestCommandHandlerFunc(p lime.RequestCommandPredicate, f lime.RequestCommandHandlerFunc) {
	r.b.RequestCommandHandlerFunc(p, f)
}
func (r builderRegistrar) ResponseCommandHandlerFunc(p lime.ResponseCommandPredicate, f lime.ResponseCommandHandlerFunc) {
	r.b.ResponseCommandHandlerFunc(p, f)
}

func init() {
	register(&PropDef{
		ID:     "C20",
		New:    func() interface{} { return &PlanC20{} },
		Gen:    genC20,
		Run:    runC20,
		MaxSim: 2 * time.Hour,
		Rule: "plans = (handler table: 0-4 handlers per kind, predicate from {nil, always, never, even/odd sequence number, kind-specific field test}, optional error at the k-th call, registered through the *Func helpers or as plain struct values through the interface-taking methods; on the server (ServerBuilder) or on a client-side EnvelopeMux; " +
			"handler durations 0/3/150 ms; 1-50 inbound envelopes of all four kinds over tcp/tcp+tls/ws/wss/in-process with buffer sizes incl. 0; in a third of the runs the sending party finishes the session or drops the connection right after its last send, while handlers are still running; in a quarter of the runs the receiving side first gives up on a command of its own and the stream carries the late response to it); oracle: exactly one invocation, of the earliest-registered matching handler, envelope unaltered; none when nothing matches and later ones still dispatched; " +
			"nothing after a handler error, and the server finishes the session; AutoReplyPings() called behind the generated table with a ping in the stream (in-process); non-trivial = session established; distinct = distinct (plan JSON, event-log hash)",
	})
}
