package harness

import (
	"context"
	"fmt"
	"time"

	lime "github.com/takenet/lime-go"
	"verifsim/simnet"
	"verifsim/simrt"
)

// PlanC15 measures one context-taking operation in isolation.
type PlanC15 struct {
	Op        string `json:"op"`              // xsend, xrecv, accept, chsend, process, estab-client, estab-server, finish, tlsup, srvfinish, hclient
	Transport string `json:"transport"`       // tcp, tcptls, ws, wss, inproc
	Cancel    bool   `json:"cancel"`          // cancellation instead of a deadline
	EndMs     int    `json:"end_ms"`          // when the context ends, from the start of the operation
	Stage     int    `json:"stage"`           // handshake stage at which the scripted peer goes silent
	Cap       int    `json:"cap"`             // socket send buffer (bytes) / in-process queue size for "peer not reading"
	PeerMode  int    `json:"peer_mode"`       // 0 silent, 1 not reading (buffers fill), 2 slow reader
	FarMs     int    `json:"far_ms"`          // with Cancel: the cancelled context also carries a deadline this far beyond its cancellation (0 = none)
	Trace     bool   `json:"trace,omitempty"` // TCP transports are configured with a TraceWriter
}

var c15Ops = []string{"xsend", "xrecv", "accept", "chsend", "process", "estab-client", "estab-server", "finish", "tlsup", "srvfinish", "hclient"}

func genC15(t *simrt.Tape, tier string) interface{} {
	p := &PlanC15{}
	p.Op = c15Ops[t.Draw(len(c15Ops))]
	p.Transport = listenerKinds[t.Draw(len(listenerKinds))]
	p.Cancel = t.Draw(2) == 0
	p.EndMs = []int{0, 1, 50, 900, 4990, 5010, 7300, 12000, 31000}[t.Draw(9)]
	p.Stage = t.Draw(4)
	p.Cap = []int{0, 1, 64, 1000}[t.Draw(4)]
	p.PeerMode = t.Draw(3)
	if p.Cancel && t.Draw(2) == 0 {
		p.FarMs = []int{100, 3000, 6000, 20000, 600000}[t.Draw(5)]
	}
	p.Trace = t.Draw(4) == 0
	if p.Op == "tlsup" {
		p.Transport = "tcptls"
	}
	if p.Op == "accept" && (p.Transport == "tcptls" || p.Transport == "wss") {
		p.Transport = map[string]string{"tcptls": "tcp", "wss": "ws"}[p.Transport]
	}
	return p
}

func bigMessage(id string, n int) *lime.Message {
	b := make([]byte, n)
	for i := range b {
		b[i] = 'x'
	}
	txt := lime.TextDocument(string(b))
	m := &lime.Message{}
	m.SetContent(&txt).SetID(id)
	return m
}

// measure runs op with a context that ends after endMs and judges how long after that end it
// returns. Operations that complete before the context ends are not judged.
func measure(w *World, p *PlanC15, what string, op func(ctx context.Context) error) {
	var ctx context.Context
	var cancel context.CancelFunc
	end := time.Duration(p.EndMs) * time.Millisecond
	start := time.Now()
	if p.Cancel {
		ctx, cancel = context.WithCancel(context.Background())
		if p.FarMs > 0 {
			var c2 context.CancelFunc
			ctx, c2 = context.WithTimeout(ctx, end+time.Duration(p.FarMs)*time.Millisecond)
			defer c2()
		}
		go func() {
			time.Sleep(end)
			cancel()
		}()
	} else {
		ctx, cancel = context.WithTimeout(context.Background(), end)
	}
	defer cancel()
	ret := NewFlag()
	var err error
	var retAt time.Duration
	go func() {
		err = op(ctx)
		retAt = time.Since(start)
		ret.Set()
	}()
	kind := "deadline"
	bound := time.Second
	if p.Cancel {
		kind = "cancel"
		bound = 5 * time.Second
	}
	sig := fmt.Sprintf("op=%s transport=%s ctx=%s", what, p.Transport, kind)
	w.Armed = true
	if !ret.WaitFor(end + 70*time.Second) {
		w.Violate("C15.blocked-past-context", sig, "%s on %s was still blocked 70 s after its context ended (%s at %v)", what, p.Transport, kind, end)
		return
	}
	if retAt < end {
		w.Count("completed-before-context-end")
		return
	}
	w.Count("judged")
	late := retAt - end
	if err == nil && ctx.Err() != nil && late > 0 {
		// it did return, but reported success although it only came back after the context had ended: not judged here
		w.Count("returned-nil-after-end")
	}
	if late > bound {
		w.Violate("C15.late-return", sig, "%s on %s returned %v after its context ended (%s at %v), bound %v; error: %v", what, p.Transport, late, kind, end, bound, err)
	}
	if err == nil && late > bound {
		w.Count("late-and-nil")
	}
}

// silentListener accepts raw connections and never answers.
func silentListener(w *World, port int) {
	l, err := w.Net.Listen(tcpAddr(port).String())
	if err != nil {
		return
	}
	go func() {
		for {
			c, err := l.Accept()
			if err != nil {
				return
			}
			_ = c
		}
	}()
}

func runC15(w *World, pi interface{}) {
	p := pi.(*PlanC15)
	if p.EndMs < 0 {
		p.EndMs = 0
	}
	if p.EndMs > 60000 {
		p.EndMs = 60000
	}
	srvTLS, cliTLS := TLSConfigs()
	conf := FullConf{Listeners: []string{p.Transport}, Enc: []string{"none", "tls"}, Buf: 1, Trace: p.Trace}
	cli := CliSpec{Buf: 1, IPBuf: p.Cap % 3, Auth: "guest", Enc: "none"}
	if p.Transport == "tcptls" {
		cli.Enc = "tls"
	}
	capFault := func(lk *simnet.Link) {
		// wss runs crypto/tls inside net/http and gorilla: a writer parked on a full simulated socket
		// would hold crypto/tls's own mutex, on which other goroutines cannot block durably in a bubble
		if p.Cap > 0 && p.Transport != "wss" {
			fs := NoFaults()
			fs.Capacity = p.Cap
			fs.Apply(w, lk.AB)
			fs.Apply(w, lk.BA)
		}
	}
	switch p.Op {
	case "accept":
		var l lime.TransportListener
		var addr interface {
			Network() string
			String() string
		}
		switch p.Transport {
		case "tcp":
			l, addr = lime.NewTCPTransportListener(nil), tcpAddr(7500)
		case "ws":
			l, addr = lime.NewWebsocketTransportListener(nil), tcpAddr(7500)
		default:
			a := lime.InProcessAddr(fmt.Sprintf("c15-%d", ProcUniq()))
			l, addr = lime.NewInProcessTransportListener(a), a
		}
		if err := l.Listen(context.Background(), addr); err != nil {
			return
		}
		defer l.Close()
		measure(w, p, "Accept", func(ctx context.Context) error {
			_, err := l.Accept(ctx)
			return err
		})
	case "xsend", "xrecv", "tlsup":
		// transport-level operations against a peer that is silent / not reading
		var c, s lime.Transport
		var dripLink *simnet.Link
		switch p.Transport {
		case "tcp", "tcptls":
			w.Net.OnLink = capFault
			pair, err := TCPPair(w, 7501, traced(p.Trace, &lime.TCPConfig{TLSConfig: cliTLS}), traced(p.Trace, &lime.TCPConfig{TLSConfig: srvTLS}), [2]FaultSpec{NoFaults(), NoFaults()})
			if err != nil {
				return
			}
			defer pair.Listener.Close()
			capFault(pair.Link)
			if p.Transport == "tcptls" && p.Op != "tlsup" {
				if err := pair.UpgradeTLS(time.Minute); err != nil {
					return
				}
			}
			c, s = pair.Client, pair.Server
			dripLink = pair.Link
		case "ws", "wss":
			cfg := &lime.WebsocketConfig{}
			url := "ws://127.0.0.1:7502"
			var ct = cliTLS
			if p.Transport == "wss" {
				cfg.TLSConfig = srvTLS
				url = "wss://127.0.0.1:7502"
			} else {
				ct = nil
			}
			l := lime.NewWebsocketTransportListener(cfg)
			if err := l.Listen(context.Background(), tcpAddr(7502)); err != nil {
				return
			}
			defer l.Close()
			w.Net.OnLink = capFault
			ctx, cancel := context.WithTimeout(context.Background(), time.Minute)
			var err error
			c, err = lime.DialWebsocket(ctx, url, nil, ct)
			if err == nil {
				s, err = l.Accept(ctx)
			}
			cancel()
			if err != nil {
				return
			}
		default:
			a := lime.InProcessAddr(fmt.Sprintf("c15-%d", ProcUniq()))
			l := lime.NewInProcessTransportListener(a)
			if err := l.Listen(context.Background(), a); err != nil {
				return
			}
			defer l.Close()
			var err error
			c, err = lime.DialInProcess(a, p.Cap%3)
			if err != nil {
				return
			}
			ctx, cancel := context.WithTimeout(context.Background(), time.Minute)
			s, err = l.Accept(ctx)
			cancel()
			if err != nil {
				return
			}
		}
		defer c.Close()
		defer s.Close()
		tr := c
		if p.Stage%2 == 1 {
			tr = s
		}
		switch p.Op {
		case "xrecv":
			if p.PeerMode == 2 && p.Transport == "tcp" && dripLink != nil {
				// a peer that is slow rather than silent: the beginning of an envelope, then one more
				// byte of it every now and then, more often than the transport's read poll
				dir := dripLink.AB
				if tr == c {
					dir = dripLink.BA
				}
				gap := []time.Duration{200 * time.Millisecond, time.Second, 4 * time.Second}[p.Stage%3]
				dir.Inject([]byte(`{"id":"drip","type":"text/plain","content":"`))
				go func() {
					for i := 0; i < 600 && !simrt.Stopping(); i++ {
						time.Sleep(gap)
						dir.Inject([]byte("x"))
					}
				}()
				w.Count("dripping-peer")
			}
			measure(w, p, "Transport.Receive", func(ctx context.Context) error {
				_, err := tr.Receive(ctx)
				return err
			})
		case "tlsup":
			// only one side starts the handshake: the peer stays silent
			measure(w, p, "Transport.SetEncryption", func(ctx context.Context) error {
				return tr.SetEncryption(ctx, lime.SessionEncryptionTLS)
			})
		default:
			// fill whatever buffers there are with sends that may complete, then measure one more
			size := 4000
			if (p.Cap == 0 || p.Transport == "wss") && p.Transport != "inproc" {
				// an unbounded socket buffer never blocks a writer: nothing to measure
				w.Count("send-cannot-block")
				return
			}
			nFill := 6
			if p.Transport == "inproc" {
				nFill = p.Cap % 3 // exactly the queue size: the next send has no room
			} else if p.Stage >= 2 {
				// no filling sends: the measured send is itself larger than the peer's window and is
				// the first write that blocks (a filling send given up in the middle of its write
				// leaves some transports refusing the next write at once, which measures nothing)
				nFill = 0
			}
			for i := 0; i < nFill; i++ {
				i := i
				done := NewFlag()
				var err error
				go func() {
					fctx, fcancel := context.WithTimeout(context.Background(), 200*time.Millisecond)
					err = tr.Send(fctx, bigMessage(fmt.Sprintf("fill%d", i), size))
					fcancel()
					done.Set()
				}()
				if !done.WaitFor(2 * time.Second) {
					// a filling send outlived its own 200 ms context: do not overlap it with the measured one
					// (transports are not safe for concurrent writers); judged as the measured operation instead
					p2 := *p
					p2.Cancel = false
					w.Armed = true
					w.Count("judged")
					if !done.WaitFor(70 * time.Second) {
						w.Violate("C15.blocked-past-context", fmt.Sprintf("op=Transport.Send transport=%s ctx=deadline", p.Transport), "Transport.Send on %s was still blocked 70 s after its 200 ms context deadline (peer not reading, buffers full)", p.Transport)
					} else {
						w.Violate("C15.late-return", fmt.Sprintf("op=Transport.Send transport=%s ctx=deadline", p.Transport), "Transport.Send on %s returned more than 1.8 s after its 200 ms context deadline (peer not reading, buffers full)", p.Transport)
					}
					return
				}
				if err != nil {
					break
				}
			}
			if !tr.Connected() {
				w.Count("transport-died-while-filling")
				return
			}
			measure(w, p, "Transport.Send", func(ctx context.Context) error {
				return tr.Send(ctx, bigMessage("measured", size))
			})
		}
	case "chsend", "process", "finish", "srvfinish":
		w.Net.OnLink = capFault
		f, err := StartFull(w, conf, 7510, nil)
		if err != nil {
			return
		}
		defer f.Close()
		block := NewFlag()
		f.OnEnv = func(ctx context.Context, kind int, env interface{}, s lime.Sender) error {
			// a handler that never returns: the server stops reading this session
			if p.PeerMode >= 1 {
				block.WaitFor(3 * time.Hour)
			}
			return nil
		}
		defer block.Set()
		if !f.WaitListening() {
			return
		}
		ctx, cancel := context.WithTimeout(context.Background(), time.Minute)
		ch, ses, err := f.ConnectChannel(ctx, cli, 0)
		cancel()
		if err != nil || ses == nil || ses.State != lime.SessionStateEstablished {
			w.Count("not-established")
			return
		}
		defer ch.Close()
		switch p.Op {
		case "srvfinish":
			// the server ends the session of a client that does not consume anything: the client's
			// streams fill, its receiver stops reading, the server's writes back up
			si := f.Sess[ses.ID]
			if si == nil || si.Ch == nil {
				w.Count("no-server-channel")
				return
			}
			sch := si.Ch
			if p.PeerMode >= 1 && (p.Cap > 0 || p.Transport == "inproc") && p.Transport != "wss" {
				for i := 0; i < 16; i++ {
					fctx, fcancel := context.WithTimeout(context.Background(), 200*time.Millisecond)
					err := sch.SendMessage(fctx, bigMessage(fmt.Sprintf("fill%d", i), 3000))
					fcancel()
					if err != nil {
						break
					}
				}
			}
			if !sch.Established() {
				w.Count("channel-died-while-filling")
				return
			}
			if p.Stage%2 == 1 {
				// first a command that is given up while a response bearing its id comes in
				w.Count("finish-after-aborted-command")
				go func() {
					time.Sleep(50 * time.Millisecond)
					resp := &lime.ResponseCommand{}
					resp.ID = "aborted"
					resp.Method = lime.CommandMethodGet
					resp.Status = lime.CommandStatusSuccess
					rctx, rcancel := context.WithTimeout(context.Background(), 5*time.Second)
					ch.SendResponseCommand(rctx, resp)
					rcancel()
				}()
				cmd := &lime.RequestCommand{}
				cmd.ID = "aborted"
				cmd.Method = lime.CommandMethodGet
				cmd.SetURIString("/nothing")
				actx, acancel := context.WithTimeout(context.Background(), 300*time.Millisecond)
				w.Bounded("the aborted ProcessCommand", time.Minute, func() { sch.ProcessCommand(actx, cmd) })
				acancel()
			}
			what := "ServerChannel.FinishSession"
			if p.Stage >= 2 {
				what = "ServerChannel.FailSession"
			}
			measure(w, p, what, func(ctx context.Context) error {
				if p.Stage >= 2 {
					return sch.FailSession(ctx, &lime.Reason{Code: 9, Description: "over"})
				}
				return sch.FinishSession(ctx)
			})
		case "process":
			measure(w, p, "ProcessCommand", func(ctx context.Context) error {
				cmd := &lime.RequestCommand{}
				cmd.ID = "never-answered"
				cmd.Method = lime.CommandMethodGet
				cmd.SetURIString("/nothing")
				_, err := ch.ProcessCommand(ctx, cmd)
				return err
			})
		case "finish":
			// the server's session goroutine is stuck in a handler, so the finishing request is never answered
			sctx, scancel := context.WithTimeout(context.Background(), time.Second)
			ch.SendMessage(sctx, bigMessage("wedge", 10))
			scancel()
			if p.Stage%2 == 1 {
				// first a command that is given up: its request is stuck behind the peer that does not
				// read (when the buffers are bounded) while a response bearing its id comes in
				w.Count("finish-after-aborted-command")
				for i := 0; i < 12 && (p.Cap > 0 || p.Transport == "inproc") && p.Transport != "wss"; i++ {
					fctx, fcancel := context.WithTimeout(context.Background(), 200*time.Millisecond)
					err := ch.SendMessage(fctx, bigMessage(fmt.Sprintf("fill%d", i), 3000))
					fcancel()
					if err != nil {
						break
					}
				}
				if si := f.Sess[ses.ID]; si != nil && ch.Established() {
					go func() {
						time.Sleep(50 * time.Millisecond)
						resp := &lime.ResponseCommand{}
						resp.ID = "aborted"
						resp.Method = lime.CommandMethodGet
						resp.Status = lime.CommandStatusSuccess
						rctx, rcancel := context.WithTimeout(context.Background(), 5*time.Second)
						si.Ch.SendResponseCommand(rctx, resp)
						rcancel()
					}()
					cmd := &lime.RequestCommand{}
					cmd.ID = "aborted"
					cmd.Method = lime.CommandMethodGet
					cmd.SetURIString("/nothing")
					actx, acancel := context.WithTimeout(context.Background(), 300*time.Millisecond)
					w.Bounded("the aborted ProcessCommand", time.Minute, func() { ch.ProcessCommand(actx, cmd) })
					acancel()
				}
			}
			measure(w, p, "ClientChannel.FinishSession", func(ctx context.Context) error {
				_, err := ch.FinishSession(ctx)
				return err
			})
		default:
			if (p.Cap == 0 || p.Transport == "wss") && p.Transport != "inproc" {
				w.Count("send-cannot-block")
				return
			}
			for i := 0; i < 12; i++ {
				i := i
				done := NewFlag()
				var err error
				go func() {
					fctx, fcancel := context.WithTimeout(context.Background(), 200*time.Millisecond)
					err = ch.SendMessage(fctx, bigMessage(fmt.Sprintf("fill%d", i), 3000))
					fcancel()
					done.Set()
				}()
				if !done.WaitFor(2*time.Second) || err != nil {
					break
				}
			}
			if !ch.Established() {
				w.Count("channel-died-while-filling")
				return
			}
			measure(w, p, "Channel.SendMessage", func(ctx context.Context) error {
				return ch.SendMessage(ctx, bigMessage("measured", 3000))
			})
		}
	case "hclient":
		// the high-level Client against a server that accepts connections and never answers: its own
		// listener goroutine is stuck establishing (with a context that never ends) when the
		// application calls in with a context of its own
		kind := p.Transport
		if kind != "inproc" {
			kind = "tcp"
		}
		cfg := lime.NewClientConfig()
		cfg.ChannelBufferSize = 1
		cfg.Authenticator = authenticatorFor("guest")
		if kind == "tcp" {
			rl, err := w.Net.Listen(tcpAddr(7540).String())
			if err != nil {
				return
			}
			defer rl.Close()
			go func() {
				for {
					if _, err := rl.Accept(); err != nil {
						return
					}
				}
			}()
			cfg.NewTransport = func(ctx context.Context) (lime.Transport, error) {
				return lime.DialTcp(ctx, tcpAddr(7540), traced(p.Trace, &lime.TCPConfig{}))
			}
		} else {
			ia := lime.InProcessAddr(fmt.Sprintf("c15-%d", ProcUniq()))
			il := lime.NewInProcessTransportListener(ia)
			if err := il.Listen(context.Background(), ia); err != nil {
				return
			}
			defer il.Close()
			cfg.NewTransport = func(ctx context.Context) (lime.Transport, error) { return lime.DialInProcess(ia, 1) }
		}
		hc := lime.NewClient(cfg, &lime.EnvelopeMux{})
		defer w.Bounded("Client.Close at the end of the run", 2*time.Minute, func() { hc.Close() })
		time.Sleep(200 * time.Millisecond)
		what := []string{"Client.SendMessage", "Client.ProcessCommand", "Client.Establish"}[p.Stage%3]
		measure(w, p, what, func(ctx context.Context) error {
			switch p.Stage % 3 {
			case 0:
				return hc.SendMessage(ctx, bigMessage("measured", 10))
			case 1:
				cmd := &lime.RequestCommand{}
				cmd.ID = "hc-cmd"
				cmd.Method = lime.CommandMethodGet
				cmd.SetURIString("/x")
				_, err := hc.ProcessCommand(ctx, cmd)
				return err
			default:
				return hc.Establish(ctx)
			}
		})
	case "estab-client":
		// real client against a scripted server that goes silent at a chosen stage
		if p.Transport != "tcp" && p.Transport != "tcptls" {
			p.Transport = "tcp"
		}
		h := &History{}
		rl, err := w.Net.Listen(tcpAddr(7520).String())
		if err != nil {
			return
		}
		defer rl.Close()
		go func() {
			c, err := rl.Accept()
			if err != nil {
				return
			}
			peer := NewRawTCPFromConn(w, h, 0, c.(*simnet.Conn))
			steps := []map[string]interface{}{
				{"state": "negotiating", "id": "s1", "from": "srv@x.org/i", "compressionOptions": []string{"none"}, "encryptionOptions": []string{"none", "tls"}},
				{"state": "negotiating", "id": "s1", "from": "srv@x.org/i", "compression": "none", "encryption": "none"},
				{"state": "authenticating", "id": "s1", "from": "srv@x.org/i", "schemeOptions": []string{"guest"}},
			}
			for i := 0; i < p.Stage && i < len(steps); i++ {
				if !peer.AwaitFrame(i, time.Minute) {
					return
				}
				peer.SendJSON(steps[i])
				if i == 1 {
					peer.SendJSON(steps[2])
					break
				}
			}
		}()
		t, err := lime.DialTcp(context.Background(), tcpAddr(7520), traced(p.Trace, &lime.TCPConfig{TLSConfig: cliTLS}))
		if err != nil {
			return
		}
		defer t.Close()
		ch := lime.NewClientChannel(t, 1)
		measure(w, p, "ClientChannel.EstablishSession", func(ctx context.Context) error {
			_, err := ch.EstablishSession(ctx, compSelector, lime.NoneEncryptionSelector, lime.Identity{Name: "a", Domain: "b"}, authenticatorFor("guest"), "i")
			return err
		})
	case "estab-server":
		if p.Transport == "wss" {
			p.Transport = "ws"
		}
		h := &History{}
		sc := SrvConf{Transport: map[string]string{"tcp": "tcp", "tcptls": "tcp", "ws": "ws", "inproc": "inproc"}[p.Transport], TLSCap: p.Transport == "tcptls",
			Comp: []string{"none"}, Enc: []string{"none", "tls"}, Schemes: []string{"guest"}, Buf: 1}
		// the bare server channel's EstablishSession context is the one under measurement
		l, addr := lime.TransportListener(nil), tcpAddr(7530)
		var ia lime.InProcessAddr
		switch sc.Transport {
		case "tcp":
			cfg := traced(p.Trace, &lime.TCPConfig{})
			if sc.TLSCap {
				cfg.TLSConfig = srvTLS
			}
			l = lime.NewTCPTransportListener(cfg)
			if err := l.Listen(context.Background(), addr); err != nil {
				return
			}
		case "ws":
			l = lime.NewWebsocketTransportListener(nil)
			if err := l.Listen(context.Background(), addr); err != nil {
				return
			}
		default:
			ia = lime.InProcessAddr(fmt.Sprintf("c15-%d", ProcUniq()))
			l = lime.NewInProcessTransportListener(ia)
			if err := l.Listen(context.Background(), ia); err != nil {
				return
			}
		}
		defer l.Close()
		sut := &SUT{w: w, h: h, Conf: sc, Port: 7530, InProc: ia}
		peer, err := sut.Dial(0)
		if err != nil {
			return
		}
		defer peer.Close()
		actx, acancel := context.WithTimeout(context.Background(), time.Minute)
		t, err := l.Accept(actx)
		acancel()
		if err != nil {
			return
		}
		defer t.Close()
		ch := lime.NewServerChannel(t, 1, serverNode, "sid-c15")
		// the scripted client walks p.Stage protocol-correct steps and then goes silent
		go func() {
			var steps []Step
			for i := 0; i < p.Stage; i++ {
				steps = append(steps, Step{Op: "auto"})
			}
			ScriptRun(w, peer, steps)
		}()
		measure(w, p, "ServerChannel.EstablishSession", func(ctx context.Context) error {
			err := ch.EstablishSession(ctx, toComp(sc.Comp), toEnc(sc.Enc), toSchemes(sc.Schemes),
				func(context.Context, lime.Identity, lime.Authentication) (*lime.AuthenticationResult, error) {
					// a round trip keeps the handshake waiting for the silent client
					return &lime.AuthenticationResult{Role: lime.DomainRoleUnknown, RoundTrip: &lime.ExternalAuthentication{Token: "t", Issuer: "i"}}, nil
				},
				func(ctx context.Context, n lime.Node, c *lime.ServerChannel) (lime.Node, error) { return n, nil })
			return err
		})
	}
}

func init() {
	register(&PropDef{
		ID:     "C15",
		New:    func() interface{} { return &PlanC15{} },
		Gen:    genC15,
		Run:    runC15,
		MaxSim: 2 * time.Hour,
		Rule: "plans = one context-taking operation per run: {Transport.Send, Transport.Receive, SetEncryption(TLS), Accept, channel SendMessage, ProcessCommand, client EstablishSession at 4 handshake stages, server EstablishSession at 4 stages, client FinishSession, server FinishSession/FailSession towards a client that consumes nothing (optionally after a command that was given up while a response bearing its id came in), SendMessage/ProcessCommand/Establish of the high-level Client while its own listener is stuck establishing against a silent server} " +
			"x transport {tcp, tcp+tls, ws, wss, in-process; TCP transports with or without a TraceWriter} x peer {silent, not reading with full buffers of several sizes} x {deadline, cancellation} x context end in {0,1,50,900,4990,5010,7300,12000,31000} ms; " +
			"the measured Transport.Send is either preceded by filling sends or is itself the first write larger than the peer's window; " +
			"latency is measured on the simulated clock (code runs in zero simulated time); non-trivial = the operation was started; distinct = distinct (plan JSON, event-log hash)",
	})
}
