package harness

import (
	"fmt"
	"regexp"
	"strings"
	"time"

	"verifsim/simnet"
	"verifsim/simrt"
)

// PlanSrv is one scripted-client run against a real serving endpoint (C03, C07).
type PlanSrv struct {
	Conf    SrvConf   `json:"conf"`
	Scripts [][]Step  `json:"scripts"` // one per connection
	Faults  FaultSpec `json:"faults"`  // client->server direction of every link
	Back    FaultSpec `json:"back"`
	LingerS int       `json:"linger_s"` // how long the client keeps reading after its script
	// Chatter: a client whose handshake was refused does not leave: it keeps sending well-formed
	// session envelopes (retrying its credentials) every 300 ms while it waits to be disconnected
	Chatter bool `json:"chatter,omitempty"`
}

func genPlanSrv(t *simrt.Tape, tier string) interface{} {
	p := &PlanSrv{Conf: GenSrvConf(t), Faults: NoFaults(), Back: NoFaults()}
	n := 1
	if !p.Conf.Full && t.Draw(6) == 0 {
		n = 2 + t.Draw(2)
	}
	for i := 0; i < n; i++ {
		p.Scripts = append(p.Scripts, GenScript(t, 8))
	}
	if p.Conf.Transport != "inproc" && t.Draw(3) == 0 {
		p.Faults = GenFaults(t, 600, t.Draw(3) != 0)
		p.Faults.Capacity = 0
		p.Back = GenFaults(t, 600, true)
		p.Back.Capacity = 0
		clampTiming(&p.Faults)
		clampTiming(&p.Back)
	}
	if p.Conf.Transport != "inproc" && t.Draw(10) == 0 {
		// a client that stops reading for longer than the server's 5 s I/O poll behind a small
		// receive window: the server's write runs into its socket deadline inside an envelope
		p.Back = NoFaults()
		p.Back.Capacity = []int{8, 64, 200}[t.Draw(3)]
		p.Back.Stalls = []StallS{{AfterBytes: int64(t.Draw(160)), ForMs: []int{5100, 7000, 12000}[t.Draw(3)]}}
	}
	if t.Draw(10) == 0 {
		// template: the same identity logs in on two or three connections of one server at the same
		// time, under one scheme, with credentials that differ, while the authenticator is slow
		p.Conf.Full = true
		sc := []string{"plain", "key", "external"}[t.Draw(3)]
		p.Conf.Schemes = []string{sc}
		p.Conf.AuthOut = nil
		p.Conf.RegOut = 0
		p.Conf.AuthDelayMs = []int{5, 40, 300}[t.Draw(3)]
		p.Conf.VanishIn, p.Conf.CloseIn = "", ""
		p.Faults, p.Back = NoFaults(), NoFaults()
		from := t.Draw(3)
		p.Scripts = nil
		for i := 2 + t.Draw(2); i > 0; i-- {
			// full servers offer [transport, <scheme>]: choice 1 picks the scheme
			cr := []int{0, 1, 0, 2}[t.Draw(4)]
			st := Step{Op: "auto", Choice: 1, From: from, Creds: cr}
			p.Scripts = append(p.Scripts, []Step{{Op: "auto"}, st, st, st})
		}
	}
	if p.Conf.Full && t.Draw(10) == 0 {
		// the server is closed from inside a callback of a pending handshake, which then goes on
		p.Conf.CloseIn = []string{"auth", "reg"}[t.Draw(2)]
	}
	p.Conf.WarmUp = p.Conf.Full && p.Conf.Transport != "inproc" && t.Draw(3) == 0
	p.Conf.OtherBuilder = p.Conf.Full && t.Draw(3) == 0
	p.Conf.EarlySender = p.Conf.Full && t.Draw(4) == 0
	p.Conf.AutoPing = p.Conf.Full && t.Draw(3) == 0
	p.LingerS = []int{5, 70, 200}[t.Draw(3)]
	if len(p.Back.Stalls) > 0 && p.LingerS < 70 {
		p.LingerS = 70 // the client keeps reading long enough to see what was stuck behind the stall
	}
	if t.Draw(8) == 0 {
		// template: a peer that says one or two things and disappears at once, without waiting
		// for any answer (the server is still looking at its input when the connection goes)
		var sc []Step
		for _, st := range GenScript(t, 2) {
			if st.Op == "wait" || st.Op == "close" || st.Op == "reset" {
				continue
			}
			st.NoWait = true
			sc = append(sc, st)
		}
		if t.Draw(3) == 0 {
			// ... whose only words are a session envelope in a state that cannot open a session
			sc = []Step{{Op: "session", State: []string{"established", "authenticating", "negotiating", "finishing"}[t.Draw(4)], Scheme: "guest", NoWait: true}}
			if t.Draw(2) == 0 {
				// (where the peer's departure is visible at once: the in-process transport of a full server)
				p.Conf.Transport = "inproc"
				p.Conf.Full = true
			}
		}
		sc = append(sc, Step{Op: []string{"close", "close", "reset"}[t.Draw(3)]})
		p.Scripts[0] = sc
		// (over the in-process transport such a peer may also never read: the server's answer then
		// has nowhere to go when the queue is short)
		p.Conf.DeafInProc = p.Conf.Transport == "inproc" && t.Draw(2) == 0
	} else if t.Draw(5) == 0 {
		// template: authentication round trips, then an answer that changes one thing
		p.Conf.AuthOut = [][]int{{2, 0}, {2, 2, 0}, {2, 4}, {2, 1, 0}}[t.Draw(4)]
		p.Conf.RegOut = 0
		sc := []Step{{Op: "auto"}, {Op: "auto", Choice: t.Draw(4)}, {Op: "auto", Choice: t.Draw(4)}}
		for i := 1 + t.Draw(2); i > 0; i-- {
			sc = append(sc, Step{Op: "auto", Choice: t.Draw(4), Creds: t.Biased(5, 3, 4)})
		}
		dev := Step{Op: "session", State: "same", IDMode: t.Biased(4, 3, 4), Scheme: allSchemes[t.Draw(5)], Creds: t.Biased(5, 3, 4), From: t.Draw(3)}
		pos := 2 + t.Draw(len(sc)-2)
		sc = append(sc[:pos], append([]Step{dev}, sc[pos:]...)...)
		p.Scripts[0] = sc
	}
	return p
}

func clampTiming(f *FaultSpec) {
	for i := range f.LatencyMs {
		if f.LatencyMs[i] > 400 {
			f.LatencyMs[i] = 400
		}
	}
	for i := range f.Stalls {
		if f.Stalls[i].ForMs > 1500 {
			f.Stalls[i].ForMs = 1500
		}
	}
}

// runSrvScenario runs the scripted clients and returns the history.
func runSrvScenario(w *World, p *PlanSrv, monitor func(s *SUT)) (*History, *SUT, []*RawPeer) {
	h := &History{}
	if len(p.Scripts) == 0 {
		return h, nil, nil
	}
	if len(p.Scripts) > 4 {
		p.Scripts = p.Scripts[:4]
	}
	if len(p.Conf.Schemes) == 0 {
		p.Conf.Schemes = []string{"guest"}
	}
	if len(p.Conf.Comp) == 0 {
		p.Conf.Comp = []string{"none"}
	}
	if len(p.Conf.Enc) == 0 {
		p.Conf.Enc = []string{"none"}
	}
	if p.LingerS < 5 {
		p.LingerS = 5
	}
	for _, st := range p.Back.Stalls {
		if need := st.ForMs/1000 + 30; p.LingerS < need {
			p.LingerS = need // keep reading long enough to see what was stuck behind the stall
		}
	}
	sut, err := StartSUT(w, h, p.Conf, 7200)
	if err != nil {
		w.Count("sut-start-failed")
		return h, nil, nil
	}
	if monitor != nil {
		monitor(sut)
	}
	w.Net.OnLink = func(lk *simnet.Link) {
		p.Faults.Apply(w, lk.AB)
		p.Back.Apply(w, lk.BA)
	}
	var peers []*RawPeer
	done := make([]*Flag, len(p.Scripts))
	for i := range p.Scripts {
		peer, err := sut.Dial(i)
		if err != nil {
			w.Count("dial-failed")
			peers = append(peers, nil)
			continue
		}
		peers = append(peers, peer)
		w.Armed = true
	}
	sut.Peers = peers
	for i, peer := range peers {
		if peer == nil {
			continue
		}
		i, peer := i, peer
		done[i] = NewFlag()
		go func() {
			defer done[i].Set()
			ScriptRun(w, peer, p.Scripts[i])
			if lf := peer.LastSessionFrame(); p.Chatter && fstr(lf, "state") == "failed" && peer.Kind != "inproc" {
				retry := []byte(`{"state":"authenticating","id":"` + fstr(lf, "id") + `","from":"alice@cli.org/home","scheme":"plain","authentication":{"password":"bm9wZQ=="}}` + "\n")
				for k := 0; k < p.LingerS*3 && !peer.RemoteClosed().IsSet(); k++ {
					if peer.SendBytes(retry, "chatter") != nil {
						break
					}
					time.Sleep(300 * time.Millisecond)
				}
			}
			// keep reading for a while: the server may still answer or close
			peer.RemoteClosed().WaitFor(time.Duration(p.LingerS) * time.Second)
		}()
	}
	for _, d := range done {
		if d != nil {
			d.WaitFor(30 * time.Minute)
		}
	}
	// The scripted clients are done, the server may not be: a client that left inside a callback
	// or through a cut link leaves the server mid-handshake at this very instant. Let the
	// zero-time activity finish, then hand the oracles one frozen copy of the history (the
	// server keeps appending to the live one), so that no oracle judges two different moments.
	time.Sleep(time.Second)
	sut.ConnMap = sut.Remap(peers)
	return &History{Ev: append([]HEvent(nil), h.Ev...)}, sut, peers
}

var uuidRe = regexp.MustCompile(`^[0-9a-fA-F]{8}-[0-9a-fA-F]{4}-[0-9a-fA-F]{4}-[0-9a-fA-F]{4}-[0-9a-fA-F]{12}$`)

func identityOf(from string) string {
	if i := strings.Index(from, "/"); i >= 0 {
		return from[:i]
	}
	return from
}

func containsS(ss []string, x string) bool {
	for _, s := range ss {
		if s == x {
			return true
		}
	}
	return false
}

// oracleC03 checks, for every connection, that each observation of an established session
// is backed by the required authentication and registration.
// credProj projects an authentication object onto the fields its scheme defines.
func credProj(scheme string, m map[string]interface{}) string {
	out := map[string]interface{}{}
	for _, f := range map[string][]string{"plain": {"password"}, "key": {"key"}, "external": {"token", "issuer"}}[scheme] {
		if v, ok := m[f]; ok && v != "" {
			out[f] = v
		}
	}
	return canonJSON(out)
}

// oracleC03Shared judges a full server with several concurrent connections, where the callbacks
// cannot be told apart by connection: every established session must be backed by a callback
// invocation that returned a known role for exactly the identity, scheme and credentials that
// this peer presented last.
func oracleC03Shared(w *World, p *PlanSrv, h *History, sut *SUT, nconn int) {
	sig := func(what string) string {
		return fmt.Sprintf("%s transport=%s full=%v shared", what, p.Conf.Transport, p.Conf.Full)
	}
	for k := 0; k < nconn; k++ {
		var lastAuthFrame map[string]interface{}
		for _, e := range h.Of(k, "c-send", "s-frame") {
			if e.Kind == "c-send" && fstr(e.Frame, "state") == "authenticating" {
				lastAuthFrame = e.Frame
			}
			if e.Kind != "s-frame" || fstr(e.Frame, "state") != "established" {
				continue
			}
			if lastAuthFrame == nil {
				w.Violate("C03.established-without-authentication", sig("frame"), "connection %d received an established session without having presented any credentials\n%s", k, h.Dump(60))
				break
			}
			sc := fstr(lastAuthFrame, "scheme")
			if sc == "guest" || sc == "transport" {
				break // answered by the builder itself, without the recorded callbacks
			}
			ca, _ := lastAuthFrame["authentication"].(map[string]interface{})
			ok := false
			for _, a := range h.Ev {
				if a.Kind != "auth" || a.Seq > e.Seq {
					continue
				}
				oc := fstr(a.Frame, "outcome")
				sa, _ := a.Frame["authentication"].(map[string]interface{})
				if (oc == "member" || oc == "authority") && fstr(a.Frame, "identity") == identityOf(fstr(lastAuthFrame, "from")) && fstr(a.Frame, "scheme") == sc && credProj(sc, sa) == credProj(sc, ca) {
					ok = true
				}
			}
			if !ok {
				w.Violate("C03.established-without-own-authentication", sig("scheme="+sc), "connection %d was established as %s under scheme %s, but the authentication callback never returned a known role for the credentials this peer presented (%s)\n%s", k, identityOf(fstr(lastAuthFrame, "from")), sc, canonJSON(ca), h.Dump(60))
			}
			break
		}
	}
}

func oracleC03(w *World, p *PlanSrv, h *History, sut *SUT, nconn int) {
	if p.Conf.Full && nconn > 1 {
		oracleC03Shared(w, p, h, sut, nconn)
		return
	}
	offered := sut.Conf.Schemes
	for k := 0; k < nconn; k++ {
		var evs []HEvent
		for _, e := range h.Ev {
			if e.Conn == k || (e.Conn == -1 && nconn == 1) {
				evs = append(evs, e)
			}
		}
		var lastClientAuth map[string]interface{}
		lastClientAuthSeq := -1
		// the server consumes the peer's frames in order, and an authenticating frame that does not
		// reach the callback ends the session: so the k-th callback answers the k-th authenticating frame
		var authFrames []HEvent
		for _, e := range evs {
			if e.Kind == "c-send" && fstr(e.Frame, "state") == "authenticating" {
				authFrames = append(authFrames, e)
			}
		}
		// what the server announced to this peer (the offer the peer saw, which is what "offered" means
		// to it; the configuration is only what the server may announce)
		var announced []string
		for _, e := range evs {
			if e.Kind == "s-frame" && fstr(e.Frame, "state") == "authenticating" && e.Frame["schemeOptions"] != nil && announced == nil {
				announced = fstrs(e.Frame, "schemeOptions")
			}
		}
		nAuth := 0
		var lastAuth *HEvent
		var lastAuthClient map[string]interface{} // the client frame the last auth call answered
		var lastReg *HEvent
		rejected := false
		nEstFrames := 0
		sig := func(what string) string {
			return fmt.Sprintf("%s transport=%s full=%v", what, p.Conf.Transport, p.Conf.Full)
		}
		check := func(e HEvent, what string, to string) {
			if rejected {
				w.Violate("C03.established-after-rejection", sig(what), "connection %d shows an established session (%s) after an authentication attempt on it was rejected\n%s", k, what, h.Dump(60))
				return
			}
			// full mode: the builder answers guest attempts itself, without the recorded callbacks;
			// such an attempt is the first authenticating frame beyond those the callbacks consumed
			// (a pipelining client may already have sent such a frame behind the one whose callback
			// succeeded: an establishment that a successful callback accounts for is judged by it)
			guestFull := false
			byCallback := lastAuth != nil && (fstr(lastAuth.Frame, "outcome") == "member" || fstr(lastAuth.Frame, "outcome") == "authority")
			if !byCallback && p.Conf.Full && nAuth < len(authFrames) && authFrames[nAuth].Seq < e.Seq && fstr(authFrames[nAuth].Frame, "scheme") == "guest" {
				guestFull = true
				lastClientAuth = authFrames[nAuth].Frame
				lastAuth = nil
			}
			_ = lastClientAuthSeq
			if lastAuth == nil && !guestFull {
				w.Violate("C03.established-without-authentication", sig(what), "connection %d shows an established session (%s) but the authentication callback never ran for it\n%s", k, what, h.Dump(60))
				return
			}
			if guestFull && lastAuth == nil {
				name := identityOf(fstr(lastClientAuth, "from"))
				if i := strings.Index(name, "@"); i >= 0 {
					name = name[:i]
				}
				if !containsS(offered, "guest") || !uuidRe.MatchString(name) {
					w.Violate("C03.established-without-authentication", sig(what+" guest"), "connection %d established a guest session for identity %q (guest offered: %v)\n%s", k, name, containsS(offered, "guest"), h.Dump(60))
				}
			}
			if lastAuth != nil {
				oc := fstr(lastAuth.Frame, "outcome")
				if oc != "member" && oc != "authority" {
					w.Violate("C03.established-without-known-role", sig(what), "connection %d established although the last authentication outcome was %q\n%s", k, oc, h.Dump(60))
				}
				sc := fstr(lastAuth.Frame, "scheme")
				if sc == "" {
					// the callback receives no authentication object: the scheme is the one the peer named
					sc = fstr(lastAuthClient, "scheme")
				}
				if !containsS(offered, sc) {
					w.Violate("C03.established-under-unoffered-scheme", sig(what), "connection %d established under scheme %q, offered were %v\n%s", k, sc, offered, h.Dump(60))
				} else if announced != nil && !containsS(announced, sc) {
					w.Violate("C03.established-under-unoffered-scheme", sig(what+" announced"), "connection %d established under scheme %q, which the server had not announced to this peer (announced %v, configured %v)\n%s", k, sc, announced, offered, h.Dump(60))
				}
				if lastAuthClient != nil {
					if identityOf(fstr(lastAuthClient, "from")) != fstr(lastAuth.Frame, "identity") || fstr(lastAuthClient, "scheme") != sc {
						w.Violate("C03.authenticated-other-than-presented", sig(what), "connection %d: the successful authentication was for identity %q scheme %q, but the peer presented %q / %q\n%s", k,
							fstr(lastAuth.Frame, "identity"), sc, identityOf(fstr(lastAuthClient, "from")), fstr(lastAuthClient, "scheme"), h.Dump(60))
					} else if ca, ok := lastAuthClient["authentication"].(map[string]interface{}); ok {
						sa, _ := lastAuth.Frame["authentication"].(map[string]interface{})
						// compare the fields the named scheme defines (alien fields are not credentials)
						proj := func(m map[string]interface{}) string {
							out := map[string]interface{}{}
							for _, f := range map[string][]string{"plain": {"password"}, "key": {"key"}, "external": {"token", "issuer"}}[sc] {
								if v, ok := m[f]; ok && v != "" {
									out[f] = v
								}
							}
							return canonJSON(out)
						}
						if proj(ca) != proj(sa) {
							w.Violate("C03.authenticated-other-than-presented", sig(what+" credentials"), "connection %d: credentials given to the callback %s differ from those presented %s", k, canonJSON(sa), canonJSON(ca))
						}
					}
				}
			}
			if lastReg == nil || lastReg.Note != "" || (lastAuth != nil && lastReg.Seq < lastAuth.Seq) {
				w.Violate("C03.established-without-registration", sig(what), "connection %d established without a successful registration after the authentication\n%s", k, h.Dump(60))
				return
			}
			if to != "" && to != fstr(lastReg.Frame, "node") {
				w.Violate("C03.announced-node-differs", sig(what), "connection %d: the established session announces/reports node %q but registration supplied %q", k, to, fstr(lastReg.Frame, "node"))
			}
		}
		for i := range evs {
			e := evs[i]
			switch e.Kind {
			case "c-send":
				if fstr(e.Frame, "state") == "authenticating" {
					lastClientAuth = e.Frame
					lastClientAuthSeq = e.Seq
				}
			case "auth":
				ev := e
				lastAuth = &ev
				lastAuthClient = nil
				if nAuth < len(authFrames) && authFrames[nAuth].Seq < e.Seq {
					lastAuthClient = authFrames[nAuth].Frame
				} else {
					w.Violate("C03.callback-without-presented-credentials", sig("auth"), "connection %d: authentication callback #%d ran although the peer had sent only %d authenticating envelopes\n%s", k, nAuth+1, len(authFrames), h.Dump(60))
				}
				nAuth++
				oc := fstr(e.Frame, "outcome")
				if oc == "unknown" || oc == "error" || oc == "empty-role" {
					rejected = true
				}
			case "reg":
				ev := e
				lastReg = &ev
			case "s-frame":
				if fstr(e.Frame, "state") == "established" {
					nEstFrames++
					if nEstFrames > 1 {
						w.Violate("C03.established-twice", sig("frame"), "connection %d received %d established envelopes", k, nEstFrames)
					}
					check(e, "established envelope on the wire", fstr(e.Frame, "to"))
				}
			case "estab-return":
				if fstr(e.Frame, "state") == "established" || e.Frame["established"] == true {
					check(e, "EstablishSession returned established", fstr(e.Frame, "remote"))
				}
			case "cb-established":
				// the callback is how the server tells the application that a session is
				// established, whatever the channel says about itself at that moment
				check(e, "Established callback (channel state "+fstr(e.Frame, "state")+")", fstr(e.Frame, "remote"))
			case "state-obs":
				if fstr(e.Frame, "state") == "established" {
					check(e, "State() observed established", "")
				}
			}
		}
	}
}

func runC03(w *World, pi interface{}) {
	p := pi.(*PlanSrv)
	var last []string
	h, sut, peers := runSrvScenario(w, p, func(s *SUT) {
		// observe State() of bare channels between scheduler steps
		w.AfterEachStep(func() {
			for k, ch := range s.Chans {
				st := string(ch.State())
				for len(last) <= k {
					last = append(last, "")
				}
				if st != last[k] {
					last[k] = st
					s.h.Add(1000+k, "state-obs", map[string]interface{}{"state": st}, "", "")
				}
			}
		})
	})
	if sut == nil {
		return
	}
	oracleC03(w, p, h, sut, len(peers))
	for _, pr := range peers {
		if pr != nil && !pr.RemoteClosed().IsSet() {
			pr.Close()
		}
	}
	sut.Shutdown()
}

func init() {
	register(&PropDef{
		ID:     "C03",
		New:    func() interface{} { return &PlanSrv{} },
		Gen:    genPlanSrv,
		Run:    runC03,
		MaxSim: 2 * time.Hour,
		Rule: "plans = (server configuration from the lattice transport{tcp,ws,inproc} x TLS capability x compression list x encryption list x 1-3 offered schemes x bare ServerChannel or full ServerBuilder server x buffer size; " +
			"authentication callback outcomes per call {member, unknown, round trip, error, authority, empty role}; registration outcome {derived node, error, other node}; 1-3 scripted raw clients, each a word of <= 8 steps over " +
			"{protocol-correct next envelope with option/scheme/credential variants, explicit session envelope in any of 7 states with id/scheme/credential/option variants, data envelope, garbage bytes, half frame, ignore-TLS, close, reset, wait}; optional link faults); " +
			"in-process clients with a queue of 4, 1 or 0 envelopes, optionally deaf (they speak and leave without ever reading); the scheme an establishment rests on must be among those the server announced to that peer, not merely configured; " +
			"non-trivial = at least one scripted client connected; distinct = distinct (plan JSON, event-log hash)",
	})
}
