package harness

import (
	"encoding/binary"
	"encoding/json"
	"fmt"
	"os"
	"path/filepath"
	"sort"
	"strconv"
	"strings"
	"testing"
	"time"

	"verifsim/simrt"
)

// PropDef describes how one property is explored.
type PropDef struct {
	ID           string
	New          func() interface{}                           // empty plan (JSON target)
	Gen          func(t *simrt.Tape, tier string) interface{} // random plan from the plan tape
	SweepLen     func(tier string) int                        // number of systematically enumerated plans (may be nil)
	SweepPlan    func(tier string, i int) interface{}         // i-th systematic plan
	Run          func(w *World, plan interface{})             // scenario + oracles, runs as the main task
	MaxSim       time.Duration
	MaxSteps     int
	PanicRule    string // when set, a panic of a lime-go goroutine in a run is this violation
	LivelockRule string // when set, a run that burns its step budget at one simulated instant is this violation
	Rule         string // how cases are generated and what makes one non-trivial (for the evidence file)
	Components   string
}

var registry = map[string]*PropDef{}

func register(d *PropDef) { registry[d.ID] = d }

// KnownFinding is an entry of /verif/known_findings.json.
type KnownFinding struct {
	Property string `json:"property"`
	Rule     string `json:"rule"`
	Sig      string `json:"signature"`
	What     string `json:"what"`
	Status   string `json:"status"` // "known" suppresses; "fixed" is documentation only
	Commit   string `json:"commit,omitempty"`
}

// ReplayFile is the on-disk form of one (minimised) failing run.
type ReplayFile struct {
	Property  string          `json:"property"`
	Tier      string          `json:"tier"`
	Seed      uint64          `json:"seed"`
	Run       int             `json:"run"`
	Plan      json.RawMessage `json:"plan"`
	Tape      []uint32        `json:"tape"`
	Rule      string          `json:"rule"`
	Sig       string          `json:"sig"`
	Detail    string          `json:"detail"`
	EventHash string          `json:"event_log_sha256"`
	Events    []string        `json:"first_events"`
	Trace     []string        `json:"trace"`
	Shrunk    string          `json:"minimisation"`
	// Build names the instrumentation the run was found under: "" = sparse (yields at
	// synchronisation operations and loop heads), "dense" = a yield before every statement of
	// the session-level files too. A schedule only replays under the build that produced it.
	Build string `json:"build,omitempty"`
}

type violRec struct {
	Run    int    `json:"run"`
	Rule   string `json:"rule"`
	Sig    string `json:"sig"`
	Detail string `json:"detail"`
	Replay string `json:"replay"`
	Build  string `json:"build,omitempty"`
}

type knownRec struct {
	Rule  string `json:"rule"`
	Sig   string `json:"sig"`
	What  string `json:"what"`
	Count int    `json:"count"`
	Run   int    `json:"first_run"`
}

// WorkerOut is what a worker process reports to the driver.
type WorkerOut struct {
	Prop       string            `json:"prop"`
	Tier       string            `json:"tier"`
	Seed       uint64            `json:"seed"`
	From       int               `json:"from"`
	To         int               `json:"to"`
	Runs       int               `json:"runs"`
	Armed      int               `json:"armed"`
	Sweep      int               `json:"sweep_runs"`
	SweepTotal int               `json:"sweep_total"`
	Violations []violRec         `json:"violations"`
	Known      []knownRec        `json:"known"`
	Faults     map[string]int    `json:"faults"`
	Probes     map[string]int    `json:"probes"`
	Counts     map[string]int    `json:"counts"`
	Stops      map[string]int    `json:"stops"`
	StepsTotal int64             `json:"steps_total"`
	StepsMax   int               `json:"steps_max"`
	SimMsTotal int64             `json:"sim_ms_total"`
	Decisions  int64             `json:"decisions"`
	Deviations int64             `json:"deviations"`
	Sites      map[string]int    `json:"sites"`
	Samples    []json.RawMessage `json:"samples"`
	DetChecked int               `json:"det_checked"`
	Nondet     []string          `json:"nondeterminism"`
	Hashes     map[string]string `json:"hashes"`
	HashFile   string            `json:"hash_file"`
	Discarded  map[string]int    `json:"discarded"`
	WallS      float64           `json:"wall_s"`
	Infra      []string          `json:"infra_errors"`
	BubbleErrs map[string]int    `json:"bubble_errs"`
	TaskPanics []string          `json:"task_panics"`
}

func envInt(k string, d int) int {
	if v := os.Getenv(k); v != "" {
		if n, err := strconv.Atoi(v); err == nil {
			return n
		}
	}
	return d
}

func tapeFor(seed uint64, prop string, run int, stream int) *simrt.Tape {
	return simrt.NewSearchTape(seed^0x9e3779b97f4a7c15, hash64(prop, strconv.Itoa(run), strconv.Itoa(stream)))
}

func planJSON(p interface{}) []byte {
	b, err := json.Marshal(p)
	if err != nil {
		panic(err)
	}
	return b
}

func decodePlan(def *PropDef, b []byte) (interface{}, error) {
	p := def.New()
	if err := json.Unmarshal(b, p); err != nil {
		return nil, err
	}
	return p, nil
}

func runPlan(t *testing.T, def *PropDef, plan interface{}, tape *simrt.Tape, tier string, keepLog bool) RunOut {
	maxSim := def.MaxSim
	if maxSim == 0 {
		maxSim = 2 * time.Hour
	}
	maxSteps := def.MaxSteps
	if maxSteps == 0 {
		maxSteps = 300000
	}
	ro := Execute(t, tape, tier, keepLog, maxSim, maxSteps, func(w *World) { def.Run(w, plan) })
	// A run that exhausted its step or simulated-time budget before the scenario finished keeps
	// what its oracles had already reported (nothing is recorded once the teardown has begun, see
	// World.Violate); a busy loop is judged below from the scheduler's own statistics.
	if def.PanicRule != "" {
		for _, p := range ro.Res.Panics {
			if fn := limeFrame(p.Stack); fn != "" {
				ro.Violations = append(ro.Violations, Violation{Rule: def.PanicRule, Sig: "panic in " + fn,
					Detail: fmt.Sprintf("goroutine %s (%s) panicked: %s\n%s", p.Task, p.Site, p.Value, short(p.Stack, 1200)), Step: ro.Res.Steps})
				break
			}
		}
	}
	if def.LivelockRule != "" && ro.Res.Livelock {
		hot, n := "", 0
		keys := make([]string, 0, len(ro.Res.HotSites))
		for k := range ro.Res.HotSites {
			keys = append(keys, k)
		}
		sortStrings(keys)
		for _, k := range keys {
			if v := ro.Res.HotSites[k]; v > n && strings.Contains(k, ".go:") && !isHarnessSite(k) {
				hot, n = k, v
			}
		}
		if hot != "" {
			ro.Violations = append(ro.Violations, Violation{Rule: def.LivelockRule, Sig: "busy at " + siteFile(hot),
				Detail: fmt.Sprintf("the run took %d scheduler steps at one simulated instant (no timer, no I/O wait in between): a busy loop; hottest library site %s (%d hits); run ended by %s", ro.Res.MaxSameTime, hot, n, ro.Res.Stop), Step: ro.Res.Steps})
		}
	}
	return ro
}

var harnessFiles = map[string]bool{}

func isHarnessSite(site string) bool {
	f := siteFile(site)
	return strings.HasPrefix(f, "c0") || strings.HasPrefix(f, "c1") || strings.HasPrefix(f, "c2") || f == "world.go" || f == "full.go" || f == "peer.go" || f == "srv.go" || f == "xport.go" || f == "worker.go"
}

func siteFile(site string) string {
	s := strings.TrimPrefix(site, "start:")
	if i := strings.Index(s, ":"); i > 0 {
		return s[:i]
	}
	return s
}

// limeFrame returns the innermost lime-go function on a panic stack that did not start in
// harness code ("" when the panic belongs to the harness).
func limeFrame(stack string) string {
	lines := strings.Split(stack, "\n")
	for _, ln := range lines {
		if strings.HasPrefix(ln, "github.com/takenet/lime-go.") {
			fn := strings.TrimPrefix(ln, "github.com/takenet/lime-go.")
			if i := strings.LastIndex(fn, "("); i > 0 {
				fn = fn[:i]
			}
			return fn
		}
		if strings.HasPrefix(ln, "harness.") {
			return ""
		}
	}
	return ""
}

func hasRule(vs []Violation, rule string) *Violation {
	for i := range vs {
		if vs[i].Rule == rule {
			return &vs[i]
		}
	}
	return nil
}

// WorkerMain is the entry point of a worker process (called from TestWorker).
func WorkerMain(t *testing.T) {
	mode := os.Getenv("VERIF_MODE")
	if mode == "" {
		t.Skip("not a worker invocation")
	}
	propID := os.Getenv("VERIF_PROP")
	def := registry[propID]
	if def == nil {
		fmt.Fprintf(os.Stderr, "unknown property %q\n", propID)
		os.Exit(2)
	}
	TLSConfigs()
	switch mode {
	case "search":
		workerSearch(t, def)
	case "replay":
		workerReplay(t, def)
	case "meta":
		fmt.Println("RULE: " + def.Rule)
	default:
		fmt.Fprintf(os.Stderr, "unknown mode %q\n", mode)
		os.Exit(2)
	}
}

func loadKnown(prop string) []KnownFinding {
	path := os.Getenv("VERIF_KNOWN")
	if path == "" {
		return nil
	}
	b, err := os.ReadFile(path)
	if err != nil {
		return nil
	}
	var all struct {
		Findings []KnownFinding `json:"findings"`
	}
	if err := json.Unmarshal(b, &all); err != nil {
		fmt.Fprintf(os.Stderr, "known findings file does not parse: %v\n", err)
		os.Exit(2)
	}
	var out []KnownFinding
	for _, k := range all.Findings {
		if k.Property == prop && k.Status == "known" {
			out = append(out, k)
		}
	}
	return out
}

func matchKnown(known []KnownFinding, v Violation) *KnownFinding {
	for i := range known {
		if known[i].Rule == v.Rule && known[i].Sig == v.Sig {
			return &known[i]
		}
	}
	return nil
}

func workerSearch(t *testing.T, def *PropDef) {
	start := time.Now()
	seed := uint64(envInt("VERIF_SEED", 1))
	tier := os.Getenv("VERIF_TIER")
	from, to := envInt("VERIF_FROM", 0), envInt("VERIF_TO", 100)
	stride := envInt("VERIF_STRIDE", 1)
	budget := time.Duration(envInt("VERIF_BUDGET_S", 3600)) * time.Second
	detN := envInt("VERIF_DET", 5)
	hashN := envInt("VERIF_HASHES", 0)
	outPath := os.Getenv("VERIF_OUT")
	replayDir := os.Getenv("VERIF_REPLAY_DIR")
	maxViol := envInt("VERIF_MAX_VIOL", 3)
	known := loadKnown(def.ID)

	out := WorkerOut{Prop: def.ID, Tier: tier, Seed: seed, From: from, To: to,
		Faults: map[string]int{}, Probes: map[string]int{}, Counts: map[string]int{}, Stops: map[string]int{},
		Sites: map[string]int{}, Hashes: map[string]string{}, Discarded: map[string]int{}, BubbleErrs: map[string]int{}}
	sweepLen := 0
	if def.SweepLen != nil {
		sweepLen = def.SweepLen(tier)
	}
	out.SweepTotal = sweepLen
	distinct := map[uint64]struct{}{}
	knownCount := map[string]*knownRec{}
	reported := map[string]bool{}

	for run := from; run < to; run += stride {
		if time.Since(start) > budget {
			break
		}
		var plan interface{}
		if run < sweepLen {
			plan = def.SweepPlan(tier, run)
			out.Sweep++
		} else {
			plan = def.Gen(tapeFor(seed, def.ID, run, 0), tier)
		}
		pj := planJSON(plan)
		// every run executes the plan as decoded from its JSON, so that replay is exact
		plan, err := decodePlan(def, pj)
		if err != nil {
			out.Infra = append(out.Infra, fmt.Sprintf("run %d: plan does not round-trip: %v", run, err))
			break
		}
		tape := tapeFor(seed, def.ID, run, 1)
		// the runs that are re-executed for the determinism check keep their event logs, so that a
		// divergence can be shown even when it does not happen again
		ro := runPlan(t, def, plan, tape, tier, out.DetChecked < detN)
		out.Runs++
		out.Stops[ro.Res.Stop]++
		out.StepsTotal += int64(ro.Res.Steps)
		if ro.Res.Steps > out.StepsMax {
			out.StepsMax = ro.Res.Steps
		}
		out.SimMsTotal += int64(ro.Res.SimTime / time.Millisecond)
		out.Decisions += int64(ro.Res.Decisions)
		out.Deviations += int64(ro.Res.Deviations)
		for k, v := range ro.NetStats {
			out.Faults[k] += v
		}
		for k, v := range ro.Probes {
			out.Probes[k] += v
		}
		for k, v := range ro.Counts {
			out.Counts[k] += v
		}
		for k, v := range ro.Res.SitesHit {
			out.Sites[k] += v
		}
		if ro.Res.BubbleErr != "" {
			out.BubbleErrs[short(ro.Res.BubbleErr, 60)]++
		}
		if ro.Armed {
			out.Armed++
			distinct[hash64(string(pj), ro.Res.EventHash)] = struct{}{}
		}
		if len(out.Samples) < 3 && ro.Armed {
			s, _ := json.Marshal(map[string]interface{}{"run": run, "plan": json.RawMessage(pj), "stop": ro.Res.Stop, "steps": ro.Res.Steps,
				"sim_time": ro.Res.SimTime.String(), "trace": ro.Trace, "first_events": firstN(ro.Res.Events, 12)})
			out.Samples = append(out.Samples, s)
		}
		if (run-from)/stride < hashN {
			out.Hashes[strconv.Itoa(run)] = ro.Res.EventHash
		}
		// continuous determinism check: re-execute from the recorded tape
		if out.DetChecked < detN {
			out.DetChecked++
			p2, _ := decodePlan(def, pj)
			ro2 := runPlan(t, def, p2, simrt.NewReplayTape(append([]uint32(nil), ro.Tape...)), tier, true)
			if ro2.Res.EventHash != ro.Res.EventHash {
				msg := fmt.Sprintf("run %d: event log differs between two executions of the same tape (%s vs %s)", run, ro.Res.EventHash[:12], ro2.Res.EventHash[:12])
				for i := 0; i < len(ro.Res.Events) || i < len(ro2.Res.Events); i++ {
					ea, eb := "<end of log>", "<end of log>"
					if i < len(ro.Res.Events) {
						ea = ro.Res.Events[i]
					}
					if i < len(ro2.Res.Events) {
						eb = ro2.Res.Events[i]
					}
					if ea != eb {
						lo := i - 12
						if lo < 0 {
							lo = 0
						}
						hi := i
						if hi > len(ro.Res.Events) {
							hi = len(ro.Res.Events)
						}
						msg += fmt.Sprintf("\n first execution vs its replay, first divergence at event %d:\n A: %s\n B: %s\n context:\n  %s", i, ea, eb, strings.Join(ro.Res.Events[lo:hi], "\n  "))
						break
					}
				}
				// find the first divergence with full logs
				for try := 0; try < 6; try++ {
					pa, _ := decodePlan(def, pj)
					a := runPlan(t, def, pa, simrt.NewReplayTape(append([]uint32(nil), ro.Tape...)), tier, true)
					pb, _ := decodePlan(def, pj)
					b := runPlan(t, def, pb, simrt.NewReplayTape(append([]uint32(nil), ro.Tape...)), tier, true)
					if a.Res.EventHash != b.Res.EventHash {
						for i := 0; i < len(a.Res.Events) && i < len(b.Res.Events); i++ {
							if a.Res.Events[i] != b.Res.Events[i] {
								lo := i - 6
								if lo < 0 {
									lo = 0
								}
								msg += fmt.Sprintf("\n first divergence at event %d:\n A: %s\n B: %s\n context:\n  %s", i, a.Res.Events[i], b.Res.Events[i], strings.Join(a.Res.Events[lo:i], "\n  "))
								break
							}
						}
						msg += "\n plan: " + string(pj)
						break
					}
				}
				out.Nondet = append(out.Nondet, msg)
			}
		}
		// harness trouble is never a verdict
		for _, p := range ro.Res.Panics {
			if len(out.TaskPanics) < 5 {
				out.TaskPanics = append(out.TaskPanics, fmt.Sprintf("run %d task %s (%s): %s\n%s", run, p.Task, p.Site, p.Value, short(p.Stack, 1800)))
			}
			if strings.Contains(p.Stack, "/harness/") && !strings.Contains(p.Stack, "lime-go") {
				out.Infra = append(out.Infra, fmt.Sprintf("run %d: harness panic in task %s: %s\n%s", run, p.Task, p.Value, short(p.Stack, 1500)))
			}
		}
		for _, v := range ro.Violations {
			if k := matchKnown(known, v); k != nil {
				key := k.Rule + "|" + k.Sig
				if knownCount[key] == nil {
					knownCount[key] = &knownRec{Rule: k.Rule, Sig: k.Sig, What: k.What, Run: run}
				}
				knownCount[key].Count++
				continue
			}
			key := v.Rule + "|" + v.Sig
			if reported[key] || len(out.Violations) >= maxViol {
				continue
			}
			reported[key] = true
			rf := minimise(t, def, tier, seed, run, pj, ro.Tape, v)
			if os.Getenv("VERIF_DENSE_BUILD") != "" {
				rf.Build = "dense"
			}
			path := ""
			if replayDir != "" {
				path = filepath.Join(replayDir, fmt.Sprintf("%s-%d-%d-%s.json", def.ID, seed, run, sanitize(v.Rule)))
				b, _ := json.MarshalIndent(rf, "", " ")
				if err := os.WriteFile(path, b, 0o644); err != nil {
					out.Infra = append(out.Infra, err.Error())
				}
			}
			out.Violations = append(out.Violations, violRec{Run: run, Rule: rf.Rule, Sig: rf.Sig, Detail: rf.Detail, Replay: path, Build: rf.Build})
		}
		if len(out.Infra) > 0 || len(out.Nondet) > 0 {
			break
		}
	}
	for _, k := range knownCount {
		out.Known = append(out.Known, *k)
	}
	sort.Slice(out.Known, func(i, j int) bool { return out.Known[i].Rule+out.Known[i].Sig < out.Known[j].Rule+out.Known[j].Sig })
	if outPath != "" {
		hf := outPath + ".hashes"
		buf := make([]byte, 0, 8*len(distinct))
		for h := range distinct {
			buf = binary.LittleEndian.AppendUint64(buf, h)
		}
		os.WriteFile(hf, buf, 0o644)
		out.HashFile = hf
	}
	out.WallS = time.Since(start).Seconds()
	b, _ := json.Marshal(out)
	if outPath != "" {
		os.WriteFile(outPath, b, 0o644)
	} else {
		fmt.Println(string(b))
	}
}

func firstN(s []string, n int) []string {
	if len(s) > n {
		return s[:n]
	}
	return s
}

func sanitize(s string) string {
	return strings.Map(func(r rune) rune {
		if (r >= 'a' && r <= 'z') || (r >= 'A' && r <= 'Z') || (r >= '0' && r <= '9') || r == '-' || r == '.' {
			return r
		}
		return '_'
	}, s)
}

func workerReplay(t *testing.T, def *PropDef) {
	path := os.Getenv("VERIF_REPLAY")
	b, err := os.ReadFile(path)
	if err != nil {
		fmt.Fprintln(os.Stderr, err)
		os.Exit(2)
	}
	var rf ReplayFile
	if err := json.Unmarshal(b, &rf); err != nil {
		fmt.Fprintln(os.Stderr, err)
		os.Exit(2)
	}
	plan, err := decodePlan(def, rf.Plan)
	if err != nil {
		fmt.Fprintln(os.Stderr, err)
		os.Exit(2)
	}
	ro := runPlan(t, def, plan, simrt.NewReplayTape(rf.Tape), rf.Tier, true)
	res := map[string]interface{}{
		"property": def.ID, "expected_rule": rf.Rule, "violations": ro.Violations,
		"reproduced": hasRule(ro.Violations, rf.Rule) != nil,
		"event_hash": ro.Res.EventHash, "event_hash_matches": ro.Res.EventHash == rf.EventHash,
		"stop": ro.Res.Stop, "steps": ro.Res.Steps, "sim_time": ro.Res.SimTime.String(), "trace": ro.Trace,
	}
	if os.Getenv("VERIF_VERBOSE") != "" {
		res["events"] = ro.Res.Events
		res["log"] = ro.Log
		res["panics"] = ro.Res.Panics
	}
	ob, _ := json.MarshalIndent(res, "", " ")
	if p := os.Getenv("VERIF_OUT"); p != "" {
		os.WriteFile(p, ob, 0o644)
	} else {
		fmt.Println(string(ob))
	}
}
