package harness

import (
	"context"
	"net"
	"testing"
	"time"

	lime "github.com/takenet/lime-go"
	"verifsim/simnet"
	"verifsim/simrt"
)

func TestSmoke(t *testing.T) {
	for seed := uint64(1); seed <= 3; seed++ {
		var hashes []string
		for rep := 0; rep < 2; rep++ {
			tape := simrt.NewSearchTape(seed, 1)
			nw := simnet.NewNetwork()
			simnet.Install(nw)
			var got string
			res := simrt.Run(t, simrt.Config{Tape: tape, KeepLog: true, MaxSimTime: 2 * time.Hour, OnTeardown: nw.Shutdown}, func() {
				addr := &net.TCPAddr{IP: net.IPv4(127, 0, 0, 1), Port: 5000}
				srvDone := make(chan struct{})
				server := lime.NewServerBuilder().
					MessagesHandlerFunc(func(ctx context.Context, msg *lime.Message, s lime.Sender) error {
						got = string(*msg.Content.(*lime.TextDocument))
						return nil
					}).
					ListenTCP(addr, &lime.TCPConfig{}).
					EnableGuestAuthentication().
					Build()
				simrt.Go("srv", func() {
					err := server.ListenAndServe()
					simrt.Note("ListenAndServe: %v", err)
					simrt.Yield("x")
					close(srvDone)
				})
				simrt.Yield("pre-sleep")
				time.Sleep(time.Second)
				simrt.Woke("post-sleep")
				client := lime.NewClientBuilder().UseTCP(addr, &lime.TCPConfig{}).Build()
				ctx, cancel := context.WithTimeout(context.Background(), 30*time.Second)
				defer cancel()
				txt := lime.TextDocument("hello")
				msg := &lime.Message{}
				msg.SetContent(&txt)
				if err := client.SendMessage(ctx, msg); err != nil {
					simrt.Note("send err %v", err)
				}
				simrt.Yield("pre-sleep")
				time.Sleep(time.Hour)
				simrt.Woke("post-sleep")
				simrt.Note("client close: %v", client.Close())
				simrt.Note("server close: %v", server.Close())
				simrt.Yield("w")
				<-srvDone
				simrt.Woke("w")
				for _, ti := range simrt.Census() {
					simrt.Note("census %+v", ti)
				}
			})
			simnet.Uninstall()
			t.Logf("seed %d stop=%s steps=%d sim=%v tasks=%d got=%q bubble=%q panics=%d", seed, res.Stop, res.Steps, res.SimTime, res.Tasks, got, res.BubbleErr, len(res.Panics))
			for _, p := range res.Panics {
				t.Logf("PANIC %s %s\n%s", p.Task, p.Value, p.Stack)
			}
			if rep == 0 && seed == 1 {
				for _, e := range res.Events {
					if e[0] == '#' {
						t.Log(e)
					}
				}
			}
			hashes = append(hashes, res.EventHash)
		}
		if hashes[0] != hashes[1] {
			t.Fatalf("nondeterministic seed %d", seed)
		}
	}
}
