package harness

import (
	"context"
	"crypto/tls"
	"errors"
	"fmt"
	"time"

	lime "github.com/takenet/lime-go"
	"verifsim/simnet"
	"verifsim/simrt"
)

// FullConf describes a real Server with mixed listeners.
type FullConf struct {
	Listeners   []string `json:"listeners"`           // tcp, tcptls, ws, wss, inproc
	Trace       bool     `json:"trace,omitempty"`     // TCP listeners and TCP clients are configured with a TraceWriter
	Overlap     bool     `json:"overlap,omitempty"`   // two handlers per kind with overlapping predicates (a narrow one, then the catch-all): the first match gets the envelope
	AutoPing    bool     `json:"auto_ping,omitempty"` // built with AutoReplyPings(), registered ahead of the other handlers
	Enc         []string `json:"enc"`
	Comp        []string `json:"comp"`
	Buf         int      `json:"buf"`
	RegDelayMs  int      `json:"reg_delay_ms,omitempty"` // how long the Register callback takes
	RegMode     int      `json:"reg_mode"`               // 0: name@srv.org/<instance>-<n>; 1: colliding-looking addresses (same name, numbered instance)
	InProcFixed []string `json:"-"`                      // reuse these in-process addresses (server restart)
}

// CliSpec describes one real client.
type CliSpec struct {
	L         int    `json:"l"`      // listener index
	High      bool   `json:"high"`   // lime.Client instead of a bare ClientChannel
	Enc       string `json:"enc"`    // encryption selector: "", none, tls
	Buf       int    `json:"buf"`    // channel buffer size
	IPBuf     int    `json:"ip_buf"` // in-process transport buffer
	Auth      string `json:"auth"`   // guest, plain, key, external
	Name      string `json:"name"`
	ReadLimit int64  `json:"read_limit,omitempty"` // tcp: client transport read limit
	// Pooled: the client presents the same identity and instance as every other pooled client (a
	// connection pool of one application): the candidate nodes of their registrations are equal
	Pooled bool `json:"pooled,omitempty"`
}

var listenerKinds = []string{"tcp", "tcptls", "ws", "wss", "inproc"}

// SessInfo is what the server side knows about one session.
type SessInfo struct {
	ID     string
	Ch     *lime.ServerChannel
	EstAt  int // history seq of the Established callback
	FinAt  int
	Remote lime.Node
}

// Full is a running real server plus bookkeeping.
type Full struct {
	w            *World
	Conf         FullConf
	H            *History
	Server       *lime.Server
	ServeRet     *Flag
	ServeErr     error
	BasePort     int
	InProc       []lime.InProcessAddr
	Sess         map[string]*SessInfo
	SessOrd      []string
	regN         int
	OnEnv        func(ctx context.Context, kind int, env interface{}, s lime.Sender) error
	Links        []*simnet.Link
	CliReadLimit int64
	// CliTransports holds the transport ConnectChannel dialled for client i.
	CliTransports map[int]lime.Transport
}

// StartFull builds and starts the server. setup may register handlers on the builder; when
// nil, catch-all handlers that call f.OnEnv are installed.
func StartFull(w *World, conf FullConf, basePort int, setup func(b *lime.ServerBuilder, f *Full)) (*Full, error) {
	f := &Full{w: w, Conf: conf, H: &History{}, ServeRet: NewFlag(), BasePort: basePort, Sess: map[string]*SessInfo{}}
	if len(conf.Listeners) == 0 {
		return nil, errors.New("no listeners")
	}
	b := lime.NewServerBuilder().Name(serverNode.Name).Domain(serverNode.Domain).Instance(serverNode.Instance).ChannelBufferSize(conf.Buf)
	if len(conf.Enc) > 0 {
		b.EncryptionOptions(toEnc(conf.Enc)...)
	}
	if len(conf.Comp) > 0 {
		b.CompressionOptions(toComp(conf.Comp)...)
	}
	for i, k := range conf.Listeners {
		switch k {
		case "tcp":
			b.ListenTCP(tcpAddr(basePort+i), traced(conf.Trace, SrvTCPConfig(false)))
			f.InProc = append(f.InProc, "")
		case "tcptls":
			b.ListenTCP(tcpAddr(basePort+i), traced(conf.Trace, SrvTCPConfig(true)))
			f.InProc = append(f.InProc, "")
		case "ws":
			b.ListenWebsocket(tcpAddr(basePort+i), SrvWSConfig(false))
			f.InProc = append(f.InProc, "")
		case "wss":
			b.ListenWebsocket(tcpAddr(basePort+i), SrvWSConfig(true))
			f.InProc = append(f.InProc, "")
		default:
			a := lime.InProcessAddr(fmt.Sprintf("ip-%d-%d-%d", basePort, i, ProcUniq()))
			if i < len(conf.InProcFixed) && conf.InProcFixed[i] != "" {
				a = lime.InProcessAddr(conf.InProcFixed[i])
			}
			b.ListenInProcess(a)
			f.InProc = append(f.InProc, a)
		}
	}
	b.EnableGuestAuthentication()
	ok := func(context.Context, lime.Identity, string) (*lime.AuthenticationResult, error) {
		return lime.MemberAuthenticationResult(), nil
	}
	b.EnablePlainAuthentication(ok)
	b.EnableKeyAuthentication(ok)
	b.EnableExternalAuthentication(func(context.Context, lime.Identity, string, string) (*lime.AuthenticationResult, error) {
		return lime.MemberAuthenticationResult(), nil
	})
	b.Register(func(ctx context.Context, cand lime.Node, c *lime.ServerChannel) (lime.Node, error) {
		if conf.RegDelayMs > 0 {
			time.Sleep(time.Duration(conf.RegDelayMs) * time.Millisecond) // a registration backend that takes its time
		}
		f.regN++
		n := lime.Node{Identity: lime.Identity{Name: cand.Name, Domain: serverNode.Domain}, Instance: fmt.Sprintf("%s-%d", cand.Instance, f.regN)}
		if conf.RegMode == 1 {
			n = lime.Node{Identity: lime.Identity{Name: "user", Domain: serverNode.Domain}, Instance: fmt.Sprintf("%d", f.regN)}
		}
		f.H.Add(-1, "reg", map[string]interface{}{"id": c.ID(), "candidate": cand.String(), "node": n.String()}, "", "")
		return n, nil
	})
	b.Established(func(sid string, c *lime.ServerChannel) {
		e := f.H.Add(-1, "cb-established", map[string]interface{}{"id": sid, "state": string(c.State()), "established": c.Established(), "remote": c.RemoteNode().String()}, "", "")
		if f.Sess[sid] == nil {
			f.Sess[sid] = &SessInfo{ID: sid, Ch: c, EstAt: e.Seq, FinAt: -1, Remote: c.RemoteNode()}
			f.SessOrd = append(f.SessOrd, sid)
		} else {
			f.H.Add(-1, "cb-established-dup", map[string]interface{}{"id": sid}, "", "")
		}
	})
	b.Finished(func(sid string) {
		e := f.H.Add(-1, "cb-finished", map[string]interface{}{"id": sid}, "", "")
		if s := f.Sess[sid]; s != nil && s.FinAt < 0 {
			s.FinAt = e.Seq
		}
	})
	if setup != nil {
		setup(b, f)
	} else {
		call := func(ctx context.Context, kind int, env interface{}, s lime.Sender) error {
			if f.OnEnv != nil {
				return f.OnEnv(ctx, kind, env, s)
			}
			return nil
		}
		if conf.AutoPing {
			b.AutoReplyPings()
		}
		if conf.Overlap {
			// a narrow handler per kind ahead of the catch-all: envelopes whose id ends in an even
			// digit match both, and go to the first only
			even := func(id string) bool { return len(id) > 0 && (id[len(id)-1]-'0')%2 == 0 }
			b.MessageHandlerFunc(func(m *lime.Message) bool { return even(m.ID) }, func(ctx context.Context, m *lime.Message, s lime.Sender) error { return call(ctx, KMessage, m, s) })
			b.NotificationHandlerFunc(func(n *lime.Notification) bool { return even(n.ID) }, func(ctx context.Context, n *lime.Notification) error { return call(ctx, KNotification, n, nil) })
			b.RequestCommandHandlerFunc(func(c *lime.RequestCommand) bool { return even(c.ID) }, func(ctx context.Context, c *lime.RequestCommand, s lime.Sender) error {
				return call(ctx, KRequest, c, s)
			})
			b.ResponseCommandHandlerFunc(func(c *lime.ResponseCommand) bool { return even(c.ID) }, func(ctx context.Context, c *lime.ResponseCommand, s lime.Sender) error {
				return call(ctx, KResponse, c, s)
			})
		}
		b.MessagesHandlerFunc(func(ctx context.Context, m *lime.Message, s lime.Sender) error { return call(ctx, KMessage, m, s) })
		b.NotificationsHandlerFunc(func(ctx context.Context, n *lime.Notification) error { return call(ctx, KNotification, n, nil) })
		b.RequestCommandsHandlerFunc(func(ctx context.Context, c *lime.RequestCommand, s lime.Sender) error {
			return call(ctx, KRequest, c, s)
		})
		b.ResponseCommandsHandlerFunc(func(ctx context.Context, c *lime.ResponseCommand, s lime.Sender) error {
			return call(ctx, KResponse, c, s)
		})
	}
	f.Server = b.Build()
	go func() {
		f.ServeErr = f.Server.ListenAndServe()
		f.H.Add(-1, "serve-return", nil, "", fmt.Sprint(f.ServeErr))
		f.ServeRet.Set()
	}()
	return f, nil
}

// WaitListening waits until every listener accepts connections.
func (f *Full) WaitListening() bool {
	// simulated time only advances once every task is blocked, so after any sleep the server's
	// start-up (which never blocks) has run to completion, in-process listeners included
	time.Sleep(time.Millisecond)
	return f.w.Eventually(30*time.Second, func() bool {
		if f.ServeRet.IsSet() {
			return true
		}
		for i, k := range f.Conf.Listeners {
			if k == "inproc" {
				continue
			}
			if !f.w.Net.Listening(tcpAddr(f.BasePort + i).String()) {
				return false
			}
		}
		return true
	})
}

// Dial opens a client transport to listener li.
func (f *Full) Dial(ctx context.Context, li int, ipBuf int) (lime.Transport, error) {
	_, cliTLS := TLSConfigs()
	switch f.Conf.Listeners[li] {
	case "tcp", "tcptls":
		return lime.DialTcp(ctx, tcpAddr(f.BasePort+li), traced(f.Conf.Trace, &lime.TCPConfig{TLSConfig: cliTLS, ReadLimit: f.CliReadLimit}))
	case "ws":
		// (a TLS configuration handed to a plain websocket dial is legal and unused)
		var wsCfg *tls.Config
		if swarm.WSDialCfg {
			wsCfg = cliTLS
		}
		return lime.DialWebsocket(ctx, fmt.Sprintf("ws://127.0.0.1:%d", f.BasePort+li), nil, wsCfg)
	case "wss":
		return lime.DialWebsocket(ctx, fmt.Sprintf("wss://127.0.0.1:%d", f.BasePort+li), nil, cliTLS)
	default:
		return lime.DialInProcess(f.InProc[li], ipBuf)
	}
}

func encSelector(sel string) lime.EncryptionSelector {
	switch sel {
	case "none":
		return lime.NoneEncryptionSelector
	case "tls":
		return lime.TLSEncryptionSelector
	}
	return func(options []lime.SessionEncryption) lime.SessionEncryption {
		for _, o := range options {
			if o == lime.SessionEncryptionTLS {
				return o
			}
		}
		if len(options) == 0 {
			return lime.SessionEncryptionNone
		}
		return options[0]
	}
}

func compSelector(options []lime.SessionCompression) lime.SessionCompression {
	for _, o := range options {
		if o == lime.SessionCompressionNone {
			return o
		}
	}
	if len(options) == 0 {
		return lime.SessionCompressionNone
	}
	return options[0]
}

func authenticatorFor(kind string) lime.Authenticator {
	return func(schemes []lime.AuthenticationScheme, rt lime.Authentication) lime.Authentication {
		switch kind {
		case "plain":
			a := &lime.PlainAuthentication{}
			a.SetPasswordAsBase64(validSecret)
			return a
		case "key":
			a := &lime.KeyAuthentication{}
			a.SetKeyAsBase64(validSecret)
			return a
		case "external":
			return &lime.ExternalAuthentication{Token: "tok", Issuer: "issuer.org"}
		}
		return &lime.GuestAuthentication{}
	}
}

func clientIdentity(c CliSpec, i int) lime.Identity {
	if c.Pooled {
		return lime.Identity{Name: "pooled", Domain: "cli.org"}
	}
	name := c.Name
	if name == "" {
		name = fmt.Sprintf("cli%d", i)
	}
	if c.Auth == "guest" || c.Auth == "" {
		name = fmt.Sprintf("00000000-0000-4000-8000-%012d", i)
	}
	return lime.Identity{Name: name, Domain: "cli.org"}
}

// ConnectChannel dials and establishes a bare ClientChannel for client i.
func (f *Full) ConnectChannel(ctx context.Context, c CliSpec, i int) (*lime.ClientChannel, *lime.Session, error) {
	if c.L < 0 || c.L >= len(f.Conf.Listeners) {
		c.L = 0
	}
	t, err := f.Dial(ctx, c.L, c.IPBuf)
	if err != nil {
		return nil, nil, err
	}
	if f.CliTransports == nil {
		f.CliTransports = map[int]lime.Transport{}
	}
	f.CliTransports[i] = t
	ch := lime.NewClientChannel(t, c.Buf)
	inst := fmt.Sprintf("inst%d", i)
	if c.Pooled {
		inst = "pool"
	}
	ses, err := ch.EstablishSession(ctx, compSelector, encSelector(c.Enc), clientIdentity(c, i), authenticatorFor(c.Auth), inst)
	if err != nil {
		t.Close()
		return ch, nil, err
	}
	return ch, ses, nil
}

// NewHighClient builds a lime.Client for client i with the given mux.
func (f *Full) NewHighClient(c CliSpec, i int, mux *lime.EnvelopeMux) *lime.Client {
	if c.L < 0 || c.L >= len(f.Conf.Listeners) {
		c.L = 0
	}
	cfg := lime.NewClientConfig()
	cfg.Node = lime.Node{Identity: clientIdentity(c, i), Instance: fmt.Sprintf("inst%d", i)}
	cfg.ChannelBufferSize = c.Buf
	cfg.CompSelector = compSelector
	cfg.EncryptSelector = encSelector(c.Enc)
	cfg.Authenticator = authenticatorFor(c.Auth)
	li, ipBuf := c.L, c.IPBuf
	cfg.NewTransport = func(ctx context.Context) (lime.Transport, error) { return f.Dial(ctx, li, ipBuf) }
	return lime.NewClient(cfg, mux)
}

// Close stops the server and waits for ListenAndServe to return.
func (f *Full) Close() error {
	err := f.Server.Close()
	f.ServeRet.WaitFor(2 * time.Minute)
	return err
}

// GenFullConf draws a server configuration with n listeners.
func GenFullConf(t *simrt.Tape, nListeners int) FullConf {
	c := FullConf{}
	for i := 0; i < nListeners; i++ {
		c.Listeners = append(c.Listeners, listenerKinds[t.Draw(len(listenerKinds))])
	}
	c.Enc = [][]string{{"none", "tls"}, {"none"}, {"tls", "none"}}[t.Draw(3)]
	c.Comp = []string{"none"}
	c.Buf = []int{0, 1, 2, 8}[t.Draw(4)]
	c.RegMode = t.Draw(2)
	c.Trace = t.Draw(5) == 0
	c.Overlap = t.Draw(3) == 0
	return c
}

// GenCliSpec draws a client for a server with n listeners.
func GenCliSpec(t *simrt.Tape, n int) CliSpec {
	return CliSpec{L: t.Draw(n), High: t.Draw(3) == 0, Enc: []string{"", "none", "tls"}[t.Draw(3)], Buf: []int{0, 1, 2, 8}[t.Draw(4)],
		IPBuf: []int{0, 1, 4}[t.Draw(3)], Auth: []string{"guest", "plain", "key", "external"}[t.Draw(4)]}
}

// FixSelector makes a client's encryption selector applicable on listener kind k: a plain
// TCP listener advertises tls but cannot apply it without a TLS configuration.
func FixSelector(k string, c *CliSpec) {
	if k == "tcp" {
		c.Enc = "none"
	}
}

// traced adds a discarding TraceWriter to a TCP configuration.
func traced(on bool, c *lime.TCPConfig) *lime.TCPConfig {
	if on {
		c.TraceWriter = newDiscardTrace()
	}
	return c
}
