package harness

import (
	"context"
	"errors"
	"fmt"
	"time"

	lime "github.com/takenet/lime-go"
	"verifsim/simnet"
	"verifsim/simrt"
)

// SenderSpec is one sending task.
type SenderSpec struct {
	Envs  []EnvSpec `json:"envs"`
	GapMs int       `json:"gap_ms"`
}

// PlanC04 is one delivery run over an established session.
type PlanC04 struct {
	Conf     FullConf     `json:"conf"`
	Cli      CliSpec      `json:"cli"`
	C2S      []SenderSpec `json:"c2s"`
	S2C      []SenderSpec `json:"s2c"`
	SrvDelay []int        `json:"srv_delay_ms"` // server handler delays, cycled
	CliDelay []int        `json:"cli_delay_ms"`
	CliMux   bool         `json:"cli_mux"` // client consumes through an EnvelopeMux (else four stream readers)
	Faults   FaultSpec    `json:"faults"`
	Back     FaultSpec    `json:"back"`
	// LatePC: 1 = the client, 2 = the server first gives up on a command request of its own (50 ms
	// context); the late response to it then travels like any other envelope and is owed a delivery.
	// 3 / 4: the same callers, but the answer is sent at the very instant their context expires: it
	// may be taken by the call, surfaced on the response stream or (having met the call as it gave
	// up) dropped, so it is owed no delivery - everything sent after it still is.
	LatePC int `json:"late_pc,omitempty"`
}

func genSenders(t *simrt.Tape, max int, maxSize int) []SenderSpec {
	var out []SenderSpec
	for i := t.Draw(max + 1); i > 0; i-- {
		s := SenderSpec{GapMs: []int{0, 0, 1, 50}[t.Draw(4)]}
		n := 1 + t.Draw(10)
		if t.Draw(5) == 0 {
			n = 1 + t.Draw(40)
		}
		for j := 0; j < n; j++ {
			s.Envs = append(s.Envs, GenEnvSpec(t, maxSize))
		}
		out = append(out, s)
	}
	return out
}

func benignFaults(t *simrt.Tape, n int) FaultSpec {
	f := GenFaults(t, n, true)
	f.Capacity = []int{0, 0, 64, 512}[t.Draw(4)]
	clampTiming(&f)
	return f
}

func genC04(t *simrt.Tape, tier string) interface{} {
	p := &PlanC04{Faults: NoFaults(), Back: NoFaults()}
	p.Conf = GenFullConf(t, 1)
	p.Cli = GenCliSpec(t, 1)
	p.Cli.High = false
	FixSelector(p.Conf.Listeners[0], &p.Cli)
	maxSize := []int{40, 300, 3000}[t.Draw(3)]
	if t.Draw(16) == 0 {
		maxSize = 20000 // a websocket message beyond the 4 KiB read buffer, several TLS records per envelope
	}
	p.C2S = genSenders(t, 3, maxSize)
	p.S2C = genSenders(t, 3, maxSize)
	if len(p.C2S)+len(p.S2C) == 0 {
		p.C2S = genSenders(t, 1, maxSize)
		if len(p.C2S) == 0 {
			p.C2S = []SenderSpec{{Envs: []EnvSpec{GenEnvSpec(t, maxSize)}}}
		}
	}
	for i := t.Draw(3); i > 0; i-- {
		p.SrvDelay = append(p.SrvDelay, []int{0, 1, 30, 700, 6000}[t.Draw(5)])
	}
	for i := t.Draw(3); i > 0; i-- {
		p.CliDelay = append(p.CliDelay, []int{0, 1, 30, 700, 6000}[t.Draw(5)])
	}
	p.CliMux = t.Draw(2) == 0
	p.LatePC = []int{0, 0, 0, 0, 1, 2, 3, 4}[t.Draw(8)]
	if p.Conf.Listeners[0] != "inproc" && t.Draw(2) == 0 {
		p.Faults = benignFaults(t, 2000)
		p.Back = benignFaults(t, 2000)
	}
	if p.Conf.Listeners[0] != "inproc" && t.Draw(5) == 0 {
		// a reader that stops for longer than the transport's 5 s I/O poll behind a small send
		// buffer: the writer runs into its socket deadline in the middle of an envelope
		for _, f := range []*FaultSpec{&p.Faults, &p.Back} {
			f.Capacity = []int{16, 64, 512}[t.Draw(3)]
			f.Stalls = []StallS{{AfterBytes: int64(400 + t.Draw(3000)), ForMs: []int{5100, 7000, 12000}[t.Draw(3)]}}
		}
	}
	if p.Conf.Listeners[0] == "wss" {
		// no bounded send buffer under library-managed TLS (see DESIGN.md, limits)
		p.Faults.Capacity, p.Back.Capacity = 0, 0
	}
	return p
}

type delivery struct {
	id    string
	canon string
	val   interface{} // the delivered value itself (its structural rendering is taken by the oracle, not in the handler)
	step  int
}

type sink struct {
	byKind [4][]delivery
	dupe   map[string]int
}

func (s *sink) add(kind int, v interface{}) {
	_, id, canon := Describe(v)
	if s.dupe == nil {
		s.dupe = map[string]int{}
	}
	s.dupe[fmt.Sprintf("%d|%s", kind, id)]++
	s.byKind[kind] = append(s.byKind[kind], delivery{id, canon, v, simrt.Step()})
}

func (s *sink) total() int {
	n := 0
	for _, k := range s.byKind {
		n += len(k)
	}
	return n
}

type sentRec struct {
	env *Env
	err error
}

func sendVia(ctx context.Context, snd lime.Sender, e *Env) error {
	switch e.Kind {
	case KMessage:
		return snd.SendMessage(ctx, e.Msg)
	case KNotification:
		return snd.SendNotification(ctx, e.Not)
	case KRequest:
		return snd.SendRequestCommand(ctx, e.Req)
	default:
		return snd.SendResponseCommand(ctx, e.Resp)
	}
}

func runSenders(w *World, dir string, specs []SenderSpec, snd lime.Sender) ([][]sentRec, []*Flag) {
	return runSendersCtx(w, dir, specs, snd, 20*time.Minute)
}

// runSendersCtx is runSenders with a per-send context timeout.
func runSendersCtx(w *World, dir string, specs []SenderSpec, snd lime.Sender, sendCtx time.Duration) ([][]sentRec, []*Flag) {
	recs := make([][]sentRec, len(specs))
	flags := make([]*Flag, len(specs))
	for si, sp := range specs {
		si, sp := si, sp
		flags[si] = NewFlag()
		go func() {
			defer flags[si].Set()
			for j, es := range sp.Envs {
				e := BuildEnvelope(es, fmt.Sprintf("%s.%d.%d", dir, si, j))
				ctx, cancel := context.WithTimeout(context.Background(), sendCtx)
				err := sendVia(ctx, snd, e)
				cancel()
				recs[si] = append(recs[si], sentRec{e, err})
				if err != nil {
					w.Count("send-error")
					w.Count("send-error: " + short(err.Error(), 90))
					return
				}
				if sp.GapMs > 0 {
					time.Sleep(time.Duration(sp.GapMs) * time.Millisecond)
				}
			}
		}()
	}
	return recs, flags
}

// checkDelivery compares what one side sent with what the other side's consumers saw.
func checkDelivery(w *World, dir, transport string, recs [][]sentRec, got *sink, all bool) {
	sig := func(what string) string { return fmt.Sprintf("%s dir=%s transport=%s", what, dir, transport) }
	sentOK := map[string]*Env{}
	attempted := map[string]*Env{}
	for _, rs := range recs {
		for _, r := range rs {
			attempted[fmt.Sprintf("%d|%s", r.env.Kind, r.env.ID)] = r.env
			if r.err == nil {
				sentOK[fmt.Sprintf("%d|%s", r.env.Kind, r.env.ID)] = r.env
			}
		}
	}
	seen := map[string]bool{}
	for kind := 0; kind < 4; kind++ {
		for _, d := range got.byKind[kind] {
			key := fmt.Sprintf("%d|%s", kind, d.id)
			e := attempted[key]
			if e == nil {
				w.Violate("C04.delivered-not-sent", sig(kindNames[kind]), "a %s with id %q was delivered but never sent: %s", kindNames[kind], d.id, short(d.canon, 300))
				continue
			}
			if seen[key] {
				w.Violate("C04.delivered-twice", sig(kindNames[kind]), "%s %q was delivered more than once", kindNames[kind], d.id)
				continue
			}
			seen[key] = true
			if d.canon != e.Canon || (e.Sem != "" && d.val != nil && semString(d.val) != e.Sem) {
				w.Violate("C04.content-differs", sig(kindNames[kind]), "%s %q arrived with different content\n got: %s\nwant: %s", kindNames[kind], d.id, short(d.canon, 400), short(e.Canon, 400))
			}
		}
	}
	okKeys := make([]string, 0, len(sentOK))
	for key := range sentOK {
		okKeys = append(okKeys, key)
	}
	sortStrings(okKeys)
	for _, key := range okKeys {
		e := sentOK[key]
		if all && !seen[key] {
			w.Violate("C04.sent-not-delivered", sig(kindNames[e.Kind]), "%s %q was sent successfully but never delivered (session stayed established)", kindNames[e.Kind], e.ID)
			break
		}
	}
	// per sender task and kind, arrival order equals send order
	for si, rs := range recs {
		for kind := 0; kind < 4; kind++ {
			var want []string
			for _, r := range rs {
				if r.env.Kind == kind && r.err == nil {
					want = append(want, r.env.ID)
				}
			}
			var gotIDs []string
			prefix := fmt.Sprintf("%s.%d.", dir, si)
			for _, d := range got.byKind[kind] {
				if len(d.id) > len(prefix) && d.id[:len(prefix)] == prefix {
					gotIDs = append(gotIDs, d.id)
				}
			}
			// compare the common subsequence order
			pos := map[string]int{}
			for i, id := range want {
				pos[id] = i
			}
			last := -1
			for _, id := range gotIDs {
				p, ok := pos[id]
				if !ok {
					continue
				}
				if p < last {
					w.Violate("C04.reordered", sig(kindNames[kind]), "%ss of sender %d arrived out of order: got %v, sent %v", kindNames[kind], si, gotIDs, want)
					break
				}
				last = p
			}
		}
	}
}

func runC04(w *World, pi interface{}) {
	p := pi.(*PlanC04)
	if len(p.Conf.Listeners) == 0 {
		return
	}
	p.Conf.Listeners = p.Conf.Listeners[:1]
	p.Cli.L = 0
	if p.Conf.Listeners[0] == "wss" {
		p.Faults.Capacity, p.Back.Capacity = 0, 0
	}
	FixSelector(p.Conf.Listeners[0], &p.Cli)
	srvSink, cliSink := &sink{}, &sink{}
	nSrv := 0
	f, err := StartFull(w, p.Conf, 7300, nil)
	if err != nil {
		return
	}
	f.OnEnv = func(ctx context.Context, kind int, env interface{}, s lime.Sender) error {
		srvSink.add(kind, env)
		if len(p.SrvDelay) > 0 {
			if d := p.SrvDelay[nSrv%len(p.SrvDelay)]; d > 0 {
				time.Sleep(time.Duration(d) * time.Millisecond)
			}
		}
		nSrv++
		return nil
	}
	defer f.Close()
	if !f.WaitListening() {
		w.Count("server-not-listening")
		return
	}
	w.Net.OnLink = func(lk *simnet.Link) {
		p.Faults.Apply(w, lk.AB)
		p.Back.Apply(w, lk.BA)
	}
	ctx, cancel := context.WithTimeout(context.Background(), 10*time.Minute)
	ch, ses, err := f.ConnectChannel(ctx, p.Cli, 0)
	cancel()
	if err != nil || ses == nil || ses.State != lime.SessionStateEstablished {
		w.Count("not-established")
		return
	}
	// the server side's channel for this session
	var sch *lime.ServerChannel
	w.Eventually(30*time.Second, func() bool {
		if si := f.Sess[ses.ID]; si != nil {
			sch = si.Ch
			return true
		}
		return false
	})
	if sch == nil {
		w.Count("no-server-channel")
		ch.Close()
		return
	}
	w.Armed = true
	// client-side consumers
	cctx, ccancel := context.WithCancel(context.Background())
	defer ccancel()
	nCli := 0
	cliDelay := func() {
		if len(p.CliDelay) > 0 {
			if d := p.CliDelay[nCli%len(p.CliDelay)]; d > 0 {
				time.Sleep(time.Duration(d) * time.Millisecond)
			}
		}
		nCli++
	}
	if p.CliMux {
		mux := &lime.EnvelopeMux{}
		if p.Conf.Overlap {
			// a narrow handler ahead of each catch-all: ids ending in an even digit match both
			even := func(id string) bool { return len(id) > 0 && (id[len(id)-1]-'0')%2 == 0 }
			mux.MessageHandlerFunc(func(m *lime.Message) bool { return even(m.ID) }, func(ctx context.Context, m *lime.Message, s lime.Sender) error {
				cliSink.add(KMessage, m)
				cliDelay()
				return nil
			})
			mux.NotificationHandlerFunc(func(n *lime.Notification) bool { return even(n.ID) }, func(ctx context.Context, n *lime.Notification) error {
				cliSink.add(KNotification, n)
				cliDelay()
				return nil
			})
			mux.RequestCommandHandlerFunc(func(c *lime.RequestCommand) bool { return even(c.ID) }, func(ctx context.Context, c *lime.RequestCommand, s lime.Sender) error {
				cliSink.add(KRequest, c)
				cliDelay()
				return nil
			})
			mux.ResponseCommandHandlerFunc(func(c *lime.ResponseCommand) bool { return even(c.ID) }, func(ctx context.Context, c *lime.ResponseCommand, s lime.Sender) error {
				cliSink.add(KResponse, c)
				cliDelay()
				return nil
			})
		}
		mux.MessageHandlerFunc(nil, func(ctx context.Context, m *lime.Message, s lime.Sender) error {
			cliSink.add(KMessage, m)
			cliDelay()
			return nil
		})
		mux.NotificationHandlerFunc(nil, func(ctx context.Context, n *lime.Notification) error {
			cliSink.add(KNotification, n)
			cliDelay()
			return nil
		})
		mux.RequestCommandHandlerFunc(nil, func(ctx context.Context, c *lime.RequestCommand, s lime.Sender) error {
			cliSink.add(KRequest, c)
			cliDelay()
			return nil
		})
		mux.ResponseCommandHandlerFunc(nil, func(ctx context.Context, c *lime.ResponseCommand, s lime.Sender) error {
			cliSink.add(KResponse, c)
			cliDelay()
			return nil
		})
		go func() { mux.ListenClient(cctx, ch) }()
	} else {
		go func() {
			for m := range ch.MsgChan() {
				cliSink.add(KMessage, m)
				cliDelay()
			}
		}()
		go func() {
			for n := range ch.NotChan() {
				cliSink.add(KNotification, n)
				cliDelay()
			}
		}()
		go func() {
			for c := range ch.ReqCmdChan() {
				cliSink.add(KRequest, c)
				cliDelay()
			}
		}()
		go func() {
			for c := range ch.RespCmdChan() {
				cliSink.add(KResponse, c)
				cliDelay()
			}
		}()
	}
	var lateRec, lateReq *sentRec
	lateDir, lateID := "", ""
	var atDeadline *sentRec
	atDeadlineDir := ""
	atDeadlineDone := NewFlag()
	if p.LatePC >= 1 && p.LatePC <= 4 {
		req := &lime.RequestCommand{}
		req.Method = lime.CommandMethodGet
		req.SetURIString("/late")
		if p.LatePC >= 3 {
			// the answer leaves at the instant the caller's context expires
			id := map[int]string{3: "c2s.9.0", 4: "s2c.9.0"}[p.LatePC]
			var snd lime.Sender = sch
			atDeadlineDir = "s2c"
			if p.LatePC == 4 {
				snd = ch
				atDeadlineDir = "c2s"
			}
			go func() {
				defer atDeadlineDone.Set()
				time.Sleep(50 * time.Millisecond)
				e := BuildEnvelope(EnvSpec{Kind: KResponse, Seed: 78, Size: 10}, id)
				lctx, lcancel := context.WithTimeout(context.Background(), 20*time.Minute)
				_ = sendVia(lctx, snd, e)
				lcancel()
				atDeadline = &sentRec{e, errors.New("owed no delivery: sent at the instant its caller gave up")}
			}()
		}
		pctx, pcancel := context.WithTimeout(context.Background(), 50*time.Millisecond)
		var perr error
		if p.LatePC == 1 || p.LatePC == 3 {
			req.ID = "c2s.9.0" // the request goes to the server, the answer will come from it
			w.Bounded("the abandoned ProcessCommand", time.Minute, func() { _, perr = ch.ProcessCommand(pctx, req) })
		} else {
			req.ID = "s2c.9.0"
			w.Bounded("the abandoned ProcessCommand", time.Minute, func() { _, perr = sch.ProcessCommand(pctx, req) })
		}
		pcancel()
		if p.LatePC >= 3 {
			atDeadlineDone.WaitFor(30 * time.Minute)
			w.Count("command-answered-at-its-deadline")
			// (the request itself is owed a delivery only if its send succeeded, which the caller cannot tell)
			dirOfReq := map[int]string{3: "c2s", 4: "s2c"}[p.LatePC]
			_ = dirOfReq
			lateReq = &sentRec{&Env{ID: req.ID, Kind: KRequest, Req: req, Canon: canonJSON(req)}, errors.New("abandoned or answered")}
		} else if perr != nil {
			w.Count("abandoned-command-before-the-traffic")
			lateDir = map[int]string{1: "s2c", 2: "c2s"}[p.LatePC]
			lateID = req.ID
			// the request itself may or may not have been written before its caller gave up
			lateReq = &sentRec{&Env{ID: req.ID, Kind: KRequest, Req: req, Canon: canonJSON(req)}, perr}
		}
	}
	c2sRecs, c2sDone := runSenders(w, "c2s", p.C2S, ch)
	s2cRecs, s2cDone := runSenders(w, "s2c", p.S2C, sch)
	if lateDir != "" {
		// the late answer to the abandoned command, sent while the other traffic is in flight
		e := BuildEnvelope(EnvSpec{Kind: KResponse, Seed: 78, Size: 10}, lateID)
		var snd lime.Sender = sch
		if lateDir == "c2s" {
			snd = ch
		}
		lctx, lcancel := context.WithTimeout(context.Background(), 20*time.Minute)
		err := sendVia(lctx, snd, e)
		lcancel()
		lateRec = &sentRec{e, err}
	}
	for _, fl := range append(c2sDone, s2cDone...) {
		fl.WaitFor(60 * time.Minute)
	}
	if atDeadline != nil {
		if atDeadlineDir == "c2s" {
			c2sRecs = append(c2sRecs, []sentRec{*atDeadline})
			s2cRecs = append(s2cRecs, []sentRec{*lateReq})
		} else {
			s2cRecs = append(s2cRecs, []sentRec{*atDeadline})
			c2sRecs = append(c2sRecs, []sentRec{*lateReq})
		}
	}
	if lateRec != nil {
		// (only now: the sender tasks append to the elements of the record slices until they are done)
		if lateDir == "c2s" {
			c2sRecs = append(c2sRecs, []sentRec{*lateRec})
			s2cRecs = append(s2cRecs, []sentRec{*lateReq})
		} else {
			s2cRecs = append(s2cRecs, []sentRec{*lateRec})
			c2sRecs = append(c2sRecs, []sentRec{*lateReq})
		}
	}
	count := func(recs [][]sentRec) int {
		n := 0
		for _, rs := range recs {
			for _, r := range rs {
				if r.err == nil {
					n++
				}
			}
		}
		return n
	}
	// drain
	allIn := func(recs [][]sentRec, got *sink) bool {
		for _, rs := range recs {
			for _, r := range rs {
				if r.err == nil && got.dupe[fmt.Sprintf("%d|%s", r.env.Kind, r.env.ID)] == 0 {
					return false
				}
			}
		}
		return true
	}
	w.Eventually(10*time.Minute, func() bool { return allIn(c2sRecs, srvSink) && allIn(s2cRecs, cliSink) })
	stayed := ch.Established() && sch.Established()
	if !stayed {
		// the premise "while the session stays established" is gone (fault or defect elsewhere)
		w.Count("session-did-not-stay-established")
		// Nobody ended this session and the link was never cut: slow handlers, small buffers,
		// fragmentation, latency and stalls are all the run contains, and the property
		// quantifies over them. A session that ends by itself takes what was sent on it along.
		w.Violate("C04.session-lost-without-cause", fmt.Sprintf("client=%s server=%s transport=%s", ch.State(), sch.State(), p.Conf.Listeners[0]),
			"the session did not stay established although nobody ended it and the link was never cut (client state %s, server state %s; first send errors: c2s %q, s2c %q; delivered %d of %d c2s and %d of %d s2c)",
			ch.State(), sch.State(), firstErr(c2sRecs), firstErr(s2cRecs), srvSink.total(), count(c2sRecs), cliSink.total(), count(s2cRecs))
		// what was delivered before must still be right
		tr := p.Conf.Listeners[0]
		checkDelivery(w, "c2s", tr, c2sRecs, srvSink, false)
		checkDelivery(w, "s2c", tr, s2cRecs, cliSink, false)
	} else {
		tr := p.Conf.Listeners[0]
		checkDelivery(w, "c2s", tr, c2sRecs, srvSink, true)
		checkDelivery(w, "s2c", tr, s2cRecs, cliSink, true)
	}
	fctx, fcancel := context.WithTimeout(context.Background(), 30*time.Second)
	ch.FinishSession(fctx)
	fcancel()
	ch.Close()
}

func init() {
	register(&PropDef{
		ID:     "C04",
		New:    func() interface{} { return &PlanC04{} },
		Gen:    genC04,
		Run:    runC04,
		MaxSim: 6 * time.Hour,
		Rule: "plans = (one listener kind of tcp/tcp+tls/ws/wss/in-process, server and client buffer sizes incl. 0, in-process queue size, encryption selector, 0-3 sender tasks per direction each with 1-40 envelopes of all four kinds from the rich generator, " +
			"handler/consumer delays on both sides, client consuming through an EnvelopeMux or four stream readers, optionally two handlers per kind with overlapping predicates on both sides, benign link faults: fragmentation, latency, stalls (in a fifth of the runs longer than the 5 s I/O poll, behind a 16-512 byte send buffer), bounded send buffer; handler delays up to 6 s; in a third of the runs one side first gives up on a command of its own and the late response to it travels with the other traffic); " +
			"or answers it at the very instant the abandoned command's context expires; one run in 16 carries envelopes of up to 20 kB; " +
			"oracle over the quiescent history: delivered = sent-ok as multisets, exactly once, content equal, per (sender task, kind) order; the session nobody ended is still established at the end; non-trivial = session established and still established at the end; distinct = distinct (plan JSON, event-log hash)",
	})
}

func firstErr(recs [][]sentRec) string {
	for _, rs := range recs {
		for _, r := range rs {
			if r.err != nil {
				return r.env.ID + ": " + r.err.Error()
			}
		}
	}
	return ""
}
