package harness

import (
	"context"
	"fmt"
	"strings"
	"time"

	lime "github.com/takenet/lime-go"
	"verifsim/simnet"
	"verifsim/simrt"
)

// PlanC13 ends an established session at a chosen moment, in one of five ways.
type PlanC13 struct {
	Conf     FullConf     `json:"conf"`
	Cli      CliSpec      `json:"cli"`
	Term     int          `json:"term"`  // 0 client FinishSession, 1 server FinishSession, 2 server FailSession, 3 Client.Close, 4 Server.Close
	AtMs     int          `json:"at_ms"` // when the end is requested, after establishment
	C2S      []SenderSpec `json:"c2s"`   // traffic in flight
	S2C      []SenderSpec `json:"s2c"`
	SrvDelay []int        `json:"srv_delay_ms"`
	CliDelay []int        `json:"cli_delay_ms"`
	CliMux   bool         `json:"cli_mux"`
	Faults   FaultSpec    `json:"faults"`
	Back     FaultSpec    `json:"back"`
	// TermCtxMs is the context deadline of the terminating call (0 = 20 s). With a short one the
	// call may give up while traffic is in flight: the session must still be released.
	TermCtxMs int `json:"term_ctx_ms,omitempty"`
	// S2CSendCtxMs > 0: the server's sends have this context and the server-to-client link a small
	// send buffer, so that a send may be given up in the middle of its write before the end
	S2CSendCtxMs int `json:"s2c_send_ctx_ms,omitempty"`
	// HighObs: the observing side of a server-initiated end (terms 1, 2) is a high-level Client, which
	// closes the ended channel on its own when it replaces it
	HighObs bool `json:"high_obs,omitempty"`
}

func (p *PlanC13) high() bool { return p.Term == 3 || (p.HighObs && (p.Term == 1 || p.Term == 2)) }

func genC13(t *simrt.Tape, tier string) interface{} {
	p := &PlanC13{Faults: NoFaults(), Back: NoFaults()}
	p.Conf = GenFullConf(t, 1)
	p.Cli = GenCliSpec(t, 1)
	p.Term = t.Draw(5)
	p.HighObs = t.Draw(3) == 0
	p.Cli.High = p.high()
	FixSelector(p.Conf.Listeners[0], &p.Cli)
	p.AtMs = []int{0, 0, 1, 3, 20, 200, 2000}[t.Draw(7)]
	if t.Draw(3) != 0 {
		p.C2S = genSenders(t, 2, 200)
		p.S2C = genSenders(t, 2, 200)
	}
	for i := t.Draw(3); i > 0; i-- {
		p.SrvDelay = append(p.SrvDelay, []int{0, 1, 30, 300}[t.Draw(4)])
	}
	for i := t.Draw(3); i > 0; i-- {
		p.CliDelay = append(p.CliDelay, []int{0, 1, 30, 300}[t.Draw(4)])
	}
	p.CliMux = t.Draw(2) == 0
	if t.Draw(5) == 0 && (p.Term == 1 || p.Term == 2) {
		// (server-side terminators only: they close the connection even when they give up, so the
		// session is over either way; a client FinishSession that gives up leaves it established)
		p.TermCtxMs = []int{1, 50, 400}[t.Draw(3)]
	}
	if p.Conf.Listeners[0] != "inproc" && t.Draw(3) == 0 {
		p.Faults = benignFaults(t, 1500)
		p.Back = benignFaults(t, 1500)
		p.Faults.Capacity, p.Back.Capacity = 0, 0
	}
	if k := p.Conf.Listeners[0]; (k == "tcp" || k == "ws") && len(p.S2C) > 0 && t.Draw(5) == 0 {
		p.S2CSendCtxMs = []int{20, 200, 900}[t.Draw(3)]
		p.Back.Capacity = []int{64, 512}[t.Draw(2)]
		// (no delivery pauses behind that small buffer: a pause of a second or more would also hold
		// the finished envelope of Server.Close beyond the one second it allows - the recorded
		// known finding, which this template is not about)
		p.Back.Stalls = nil
		if len(p.CliDelay) == 0 {
			p.CliDelay = []int{300}
		}
	}
	return p
}

var termNames = []string{"client-FinishSession", "server-FinishSession", "server-FailSession", "Client.Close", "Server.Close"}

func runC13(w *World, pi interface{}) {
	p := pi.(*PlanC13)
	if len(p.Conf.Listeners) == 0 {
		return
	}
	p.Conf.Listeners = p.Conf.Listeners[:1]
	p.Cli.L = 0
	p.Term = ((p.Term % 5) + 5) % 5
	p.Cli.High = p.high()
	FixSelector(p.Conf.Listeners[0], &p.Cli)
	kind := p.Conf.Listeners[0]
	nSrv := 0
	f, err := StartFull(w, p.Conf, 8100, nil)
	if err != nil {
		return
	}
	f.OnEnv = func(ctx context.Context, k int, env interface{}, s lime.Sender) error {
		if len(p.SrvDelay) > 0 {
			if d := p.SrvDelay[nSrv%len(p.SrvDelay)]; d > 0 {
				time.Sleep(time.Duration(d) * time.Millisecond)
			}
		}
		nSrv++
		return nil
	}
	serverClosed := false
	defer func() {
		if !serverClosed {
			f.Close()
		}
	}()
	if !f.WaitListening() {
		return
	}
	var link *simnet.Link
	w.Net.OnLink = func(lk *simnet.Link) {
		if link == nil {
			link = lk
		}
		p.Faults.Apply(w, lk.AB)
		p.Back.Apply(w, lk.BA)
	}
	sig := func(what string) string { return fmt.Sprintf("%s term=%s transport=%s", what, termNames[p.Term], kind) }
	nCli := 0
	cliDelay := func() {
		if len(p.CliDelay) > 0 {
			if d := p.CliDelay[nCli%len(p.CliDelay)]; d > 0 {
				time.Sleep(time.Duration(d) * time.Millisecond)
			}
		}
		nCli++
	}
	var ch *lime.ClientChannel
	var hc *lime.Client
	var sid string
	consumersDone := []*Flag{}
	listenRet := NewFlag()
	cctx, ccancel := context.WithCancel(context.Background())
	defer ccancel()
	if p.Cli.High {
		mux := &lime.EnvelopeMux{}
		mux.MessageHandlerFunc(nil, func(ctx context.Context, m *lime.Message, s lime.Sender) error { cliDelay(); return nil })
		mux.NotificationHandlerFunc(nil, func(ctx context.Context, n *lime.Notification) error { cliDelay(); return nil })
		mux.RequestCommandHandlerFunc(nil, func(ctx context.Context, c *lime.RequestCommand, s lime.Sender) error { cliDelay(); return nil })
		mux.ResponseCommandHandlerFunc(nil, func(ctx context.Context, c *lime.ResponseCommand, s lime.Sender) error { cliDelay(); return nil })
		hc = f.NewHighClient(p.Cli, 0, mux)
		ectx, ecancel := context.WithTimeout(context.Background(), 2*time.Minute)
		err := hc.Establish(ectx)
		ecancel()
		if err != nil {
			w.Count("not-established")
			hc.Close()
			return
		}
		w.Eventually(30*time.Second, func() bool { return len(f.SessOrd) > 0 })
		if len(f.SessOrd) == 0 {
			hc.Close()
			return
		}
		sid = f.SessOrd[len(f.SessOrd)-1]
	} else {
		ctx, cancel := context.WithTimeout(context.Background(), 2*time.Minute)
		c, ses, err := f.ConnectChannel(ctx, p.Cli, 0)
		cancel()
		if err != nil || ses == nil || ses.State != lime.SessionStateEstablished {
			w.Count("not-established")
			return
		}
		ch = c
		sid = ses.ID
		if p.CliMux {
			mux := &lime.EnvelopeMux{}
			mux.MessageHandlerFunc(nil, func(ctx context.Context, m *lime.Message, s lime.Sender) error { cliDelay(); return nil })
			mux.NotificationHandlerFunc(nil, func(ctx context.Context, n *lime.Notification) error { cliDelay(); return nil })
			mux.RequestCommandHandlerFunc(nil, func(ctx context.Context, c *lime.RequestCommand, s lime.Sender) error { cliDelay(); return nil })
			mux.ResponseCommandHandlerFunc(nil, func(ctx context.Context, c *lime.ResponseCommand, s lime.Sender) error { cliDelay(); return nil })
			go func() {
				mux.ListenClient(cctx, ch)
				listenRet.Set()
			}()
			consumersDone = append(consumersDone, listenRet)
		} else {
			mk := func(run func()) {
				fl := NewFlag()
				consumersDone = append(consumersDone, fl)
				go func() { run(); fl.Set() }()
			}
			mk(func() {
				for range ch.MsgChan() {
					cliDelay()
				}
			})
			mk(func() {
				for range ch.NotChan() {
					cliDelay()
				}
			})
			mk(func() {
				for range ch.ReqCmdChan() {
					cliDelay()
				}
			})
			mk(func() {
				for range ch.RespCmdChan() {
					cliDelay()
				}
			})
		}
	}
	// the connection of the established session is the latest one (earlier ones are failed attempts of the high-level client)
	if n := w.Net.LinkCount(); n > 0 {
		link = w.Net.GetLink(n - 1)
	}
	var sch *lime.ServerChannel
	w.Eventually(30*time.Second, func() bool {
		if si := f.Sess[sid]; si != nil {
			sch = si.Ch
			return true
		}
		return false
	})
	if sch == nil {
		w.Count("no-server-channel")
		return
	}
	w.Armed = true
	// traffic
	var cliSender lime.Sender
	if ch != nil {
		cliSender = ch
	} else {
		cliSender = highSender{hc}
	}
	_, d1 := runSenders(w, "c2s", p.C2S, cliSender)
	s2cCtx := 20 * time.Minute
	if p.S2CSendCtxMs > 0 {
		s2cCtx = time.Duration(p.S2CSendCtxMs) * time.Millisecond
	}
	s2cRecs, d2 := runSendersCtx(w, "s2c", p.S2C, sch, s2cCtx)
	time.Sleep(time.Duration(p.AtMs) * time.Millisecond)
	if p.Term == 3 {
		// a high-level client that is used again after Close reconnects by design: its own senders stop first
		for _, fl := range d1 {
			fl.WaitFor(5 * time.Minute)
		}
	}
	// the end
	var termErr error
	termRet := NewFlag()
	go func() {
		tctx := 20 * time.Second
		if p.TermCtxMs > 0 && (p.Term == 1 || p.Term == 2) {
			tctx = time.Duration(p.TermCtxMs) * time.Millisecond
		}
		ctx, cancel := context.WithTimeout(context.Background(), tctx)
		defer cancel()
		switch p.Term {
		case 0:
			_, termErr = ch.FinishSession(ctx)
		case 1:
			termErr = sch.FinishSession(ctx)
		case 2:
			termErr = sch.FailSession(ctx, &lime.Reason{Code: 7, Description: "closing"})
		case 3:
			termErr = hc.Close()
		case 4:
			termErr = f.Server.Close()
			serverClosed = true
			f.ServeRet.WaitFor(time.Minute)
		}
		termRet.Set()
	}()
	if !termRet.WaitFor(3 * time.Minute) {
		w.Violate("C13.terminating-call-did-not-return", sig("call"), "%s did not return within 3 simulated minutes", termNames[p.Term])
		return
	}
	w.Tracef("%s returned: %v", termNames[p.Term], termErr)
	// the initiator's connection is closed by the terminating call
	switch p.Term {
	case 0:
		if termErr == nil && ch.Established() {
			w.Violate("C13.initiator-still-connected", sig("client"), "client FinishSession returned nil but the channel is still established")
		}
	case 1, 2:
		if termErr == nil && sch.Established() {
			w.Violate("C13.initiator-still-connected", sig("server"), "%s returned nil but the server channel is still established", termNames[p.Term])
		}
	}
	// the peer observes the terminal envelope and state, streams and RcvDone close, consumers return
	const drain = 30 * time.Second
	wantState := lime.SessionStateFinished
	if p.Term == 2 {
		wantState = lime.SessionStateFailed
	}
	if ch != nil {
		ok := w.Eventually(drain, func() bool { return ch.State() == wantState })
		// (a terminating call that was given too short a context and reported that it gave up has
		// not ended the session in an orderly way: only the release rules below apply then)
		gaveUp := p.TermCtxMs > 0 && (p.Term == 1 || p.Term == 2) && termErr != nil
		// (likewise when one of the server's sends had been given up in the middle of its write: the
		// transports cannot write after that, so the terminal envelope cannot be delivered)
		if p.S2CSendCtxMs > 0 {
			for _, rs := range s2cRecs {
				for _, r := range rs {
					if r.err != nil {
						gaveUp = true
					}
				}
			}
		}
		if !ok && !gaveUp && (termErr == nil || p.Term >= 1) {
			what := "state=" + string(ch.State())
			detail := ""
			if p.Term == 4 && len(p.S2C) > 0 && maxInt(p.CliDelay) >= 100 {
				// Server.Close gives every session one second to take its finished envelope; a client
				// whose consumer needs longer than that for what is queued ahead of it is a known,
				// recorded limitation (known_findings.json), kept apart from every other way to get here
				what += " slow-consumer-vs-1s-finish-budget"
				detail = fmt.Sprintf(" (the client's consumer takes up to %d ms per envelope and server-to-client traffic was in flight: Server.Close allows each session 1 s to take its finished envelope)", maxInt(p.CliDelay))
			}
			w.Violate("C13.client-did-not-reach-terminal-state", sig(what), "after %s (error: %v) the client channel is in state %s, expected %s%s", termNames[p.Term], termErr, ch.State(), wantState, detail)
		}
		select {
		case <-ch.RcvDone():
		case <-time.After(drain):
			w.Violate("C13.client-receiver-not-done", sig("RcvDone"), "the client's receiver-done signal did not close within %v of %s", drain, termNames[p.Term])
		}
		for i, fl := range consumersDone {
			if !fl.WaitFor(drain) {
				w.Violate("C13.client-consumer-did-not-return", sig(fmt.Sprintf("consumer mux=%v", p.CliMux)), "client stream consumer #%d (mux=%v) had not returned %v after %s", i, p.CliMux, drain, termNames[p.Term])
				break
			}
		}
	}
	// the server side: dispatch loop over, Finished fired once
	if !w.Eventually(drain+10*time.Second, func() bool { return f.Sess[sid].FinAt >= 0 }) {
		w.Violate("C13.server-session-not-finished", sig("Finished callback"), "the server's Finished callback had not fired for session %s %v after %s\n%s", sid, drain+10*time.Second, termNames[p.Term], f.H.Dump(30))
	}
	select {
	case <-sch.RcvDone():
	case <-time.After(drain):
		w.Violate("C13.server-receiver-not-done", sig("RcvDone"), "the server channel's receiver-done signal did not close within %v of %s", drain, termNames[p.Term])
	}
	for _, fl := range append(d1, d2...) {
		fl.WaitFor(2 * time.Minute)
	}
	// nothing keeps waiting on the ended session: a send on it is refused, not left hanging
	lateSend := func(who string, snd lime.Sender) {
		txt := lime.TextDocument("late")
		m := &lime.Message{}
		m.SetContent(&txt).SetID("late-" + who)
		if !w.Bounded("late send on the ended session ("+who+")", 30*time.Second, func() {
			lctx, lcancel := context.WithTimeout(context.Background(), 2*time.Second)
			defer lcancel()
			_ = snd.SendMessage(lctx, m)
		}) {
			w.Violate("C13.send-on-ended-session-blocked", sig(who), "a SendMessage with a 2 s context on the %s channel of the ended session was still blocked 30 s later", who)
		}
	}
	if p.Term != 4 {
		lateSend("server", sch)
	}
	if ch != nil {
		lateSend("client", ch)
	}
	// the observing side closes its channel (the high-level client did so itself)
	if ch != nil {
		ch.Close()
	}
	if p.Term != 3 && hc != nil {
		hc.Close()
	}
	// long enough for the server's own handshake deadlines on connections of failed client attempts to expire
	time.Sleep(45 * time.Second)
	var left []string
	for _, ti := range simrt.Census() {
		s := ti.SpawnSite
		isSession := strings.HasPrefix(s, "channel.go") || strings.HasPrefix(s, "server_channel.go") || strings.HasPrefix(s, "client_channel.go") || (strings.HasPrefix(s, "server.go") && strings.HasSuffix(s, ":go")) ||
			strings.HasPrefix(s, "websocket_transport.go:6") || strings.HasPrefix(s, "websocket_transport.go:9") || strings.HasPrefix(s, "client.go")
		if isSession {
			left = append(left, fmt.Sprintf("%s(%s at %s, %s)", ti.ID, ti.SpawnSite, ti.Site, ti.State))
		}
	}
	if len(left) > 0 {
		site := left[0][strings.Index(left[0], "(")+1:]
		if i := strings.Index(site, " at "); i > 0 {
			site = site[:i]
		}
		w.Violate("C13.session-goroutines-left", sig(site), "%d goroutines of the session are still alive 45 s after both sides closed: %v", len(left), left)
	}
	if link != nil {
		if !link.A.IsClosed() {
			w.Violate("C13.connection-left-open", sig("client end"), "the client end of the session's connection was never closed")
		}
		if !link.B.IsClosed() {
			w.Violate("C13.connection-left-open", sig("server end"), "the server end of the session's connection was never closed")
		}
	}
	for i := 0; i < w.Net.LinkCount(); i++ {
		if lk := w.Net.GetLink(i); lk != link && (!lk.A.IsClosed() || !lk.B.IsClosed()) {
			w.Violate("C13.connection-left-open", sig("earlier attempt"), "connection #%d, opened by an earlier establishment attempt of the client, was never closed (client end closed: %v, server end closed: %v)", i, lk.A.IsClosed(), lk.B.IsClosed())
			break
		}
	}
	n := 0
	for _, e := range f.H.Ev {
		if e.Kind == "cb-finished" && fstr(e.Frame, "id") == sid {
			n++
		}
	}
	if n > 1 {
		w.Violate("C13.finished-callback-twice", sig("Finished"), "Finished fired %d times for session %s", n, sid)
	}
}

type highSender struct{ c *lime.Client }

func (h highSender) SendMessage(ctx context.Context, m *lime.Message) error {
	return h.c.SendMessage(ctx, m)
}
func (h highSender) SendNotification(ctx context.Context, n *lime.Notification) error {
	return h.c.SendNotification(ctx, n)
}
func (h highSender) SendRequestCommand(ctx context.Context, c *lime.RequestCommand) error {
	return h.c.SendRequestCommand(ctx, c)
}
func (h highSender) SendResponseCommand(ctx context.Context, c *lime.ResponseCommand) error {
	return nil // the high-level client has no response sender
}

func init() {
	register(&PropDef{
		ID:        "C13",
		New:       func() interface{} { return &PlanC13{} },
		Gen:       genC13,
		Run:       runC13,
		MaxSim:    3 * time.Hour,
		PanicRule: "C13.panic",
		Rule: "plans = (listener kind tcp/tcp+tls/ws/wss/in-process, buffer sizes incl. 0, terminator in {client FinishSession, server FinishSession, server FailSession, Client.Close of the high-level client, Server.Close}, the instant of the end relative to establishment, " +
			"0-2 sender tasks per direction with traffic in flight, slow handlers/consumers, client consuming through a mux or four stream readers, benign link faults, terminating calls with a context of 1-400 ms that may give up mid-way, server sends with short contexts behind a small send buffer that may be given up mid-write); oracle: terminating call returns and disconnects the initiator, peer reaches the terminal state, " +
			"a high-level Client as the observer of server-initiated ends (it replaces and closes the ended channel on its own); " +
			"receiver-done and streams close and consumers return within 30 s, Finished fires once, a send on the ended session is refused rather than left blocked, after both sides closed no session goroutine and no open connection end remains; goroutine panics are violations; non-trivial = session established; distinct = distinct (plan JSON, event-log hash)",
	})
}

func maxInt(xs []int) int {
	m := 0
	for _, x := range xs {
		if x > m {
			m = x
		}
	}
	return m
}
