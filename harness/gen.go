//verif:noinstrument  (pure functions: no scheduling points wanted)

package harness

import (
	"fmt"
	mrand "math/rand/v2"
	"reflect"
	"strings"

	lime "github.com/takenet/lime-go"
	"verifsim/simrt"
)

// EnvSpec describes one generated envelope; BuildEnvelope is a pure function of it, so a
// plan that lists EnvSpecs replays and shrinks exactly.
type EnvSpec struct {
	Kind int    `json:"kind"` // 0 message, 1 notification, 2 request command, 3 response command
	Seed uint32 `json:"seed"` // drives optional fields and document shape
	Size int    `json:"size"` // approximate payload size in bytes
	ID   string `json:"id,omitempty"`
}

const (
	KMessage = iota
	KNotification
	KRequest
	KResponse
)

var kindNames = []string{"message", "notification", "request", "response"}

// GenEnvSpec draws an envelope spec.
func GenEnvSpec(t *simrt.Tape, maxSize int) EnvSpec {
	sz := 0
	switch t.Draw(4) {
	case 0:
		sz = t.Draw(16)
	case 1:
		sz = t.Draw(200)
	case 2:
		sz = t.Draw(maxSize/4 + 1)
	default:
		sz = t.Draw(maxSize + 1)
	}
	return EnvSpec{Kind: t.Draw(4), Seed: uint32(t.Draw(1 << 20)), Size: sz}
}

const alnum = "abcdefghijklmnopqrstuvwxyz0123456789"

func rword(r *mrand.Rand, n int) string {
	b := make([]byte, n)
	for i := range b {
		b[i] = alnum[r.IntN(len(alnum))]
	}
	return string(b)
}

var tricky = []string{"\"", "\\", "<", ">", "&", "é", "日本", " ", "\t", "\n", " ", "{", "}", "[", "]", ":", ",", "😀", "\x7f"}

func rtext(r *mrand.Rand, n int) string {
	var sb strings.Builder
	for sb.Len() < n {
		if r.IntN(12) == 0 {
			sb.WriteString(tricky[r.IntN(len(tricky))])
		} else {
			sb.WriteByte(alnum[r.IntN(len(alnum))])
		}
	}
	return sb.String()
}

func rnode(r *mrand.Rand) lime.Node {
	n := lime.Node{}
	n.Name = rword(r, 1+r.IntN(6))
	if r.IntN(4) != 0 {
		n.Domain = rword(r, 1+r.IntN(5)) + ".org"
		if r.IntN(2) == 0 {
			n.Instance = rword(r, 1+r.IntN(4))
		}
	}
	return n
}

// envelopeShaped returns a JSON object that would itself decode as an envelope: a payload of
// this shape is what a receiver that lost its place in the stream could mistake for a frame.
func envelopeShaped(r *mrand.Rand, size int) map[string]interface{} {
	id := "in-" + rword(r, 1+r.IntN(5))
	switch r.IntN(5) {
	case 0:
		return map[string]interface{}{"id": id, "event": "received"}
	case 1:
		return map[string]interface{}{"id": id, "method": "delete", "uri": "/" + rword(r, 1+r.IntN(6))}
	case 2:
		return map[string]interface{}{"id": id, "type": "text/plain", "content": rtext(r, size)}
	case 3:
		return map[string]interface{}{"id": id, "method": "get", "status": "success"}
	default:
		return map[string]interface{}{"id": id, "state": "finished"}
	}
}

func rjson(r *mrand.Rand, size, depth int) map[string]interface{} {
	if depth >= 1 && r.IntN(6) == 0 {
		return envelopeShaped(r, size)
	}
	m := map[string]interface{}{}
	n := 1 + r.IntN(4)
	for i := 0; i < n; i++ {
		k := rword(r, 1+r.IntN(5))
		switch c := r.IntN(7); {
		case c == 0:
			m[k] = float64(r.IntN(100000) - 500)
		case c == 1:
			m[k] = r.IntN(2) == 0
		case c == 2:
			m[k] = nil
		case c == 3 && depth > 0:
			m[k] = rjson(r, size/n, depth-1)
		case c == 4 && depth > 0:
			arr := []interface{}{}
			for j := r.IntN(3); j > 0; j-- {
				arr = append(arr, rtext(r, r.IntN(8)))
			}
			arr = append(arr, float64(r.IntN(9)))
			m[k] = arr
		default:
			m[k] = rtext(r, size/n)
		}
	}
	return m
}

func rdoc(r *mrand.Rand, size, depth int) lime.Document {
	c := r.IntN(6)
	if depth <= 0 && c >= 3 {
		c = r.IntN(3)
	}
	switch c {
	case 0:
		d := lime.TextDocument(rtext(r, size))
		return &d
	case 1:
		d := lime.JsonDocument(rjson(r, size, 2))
		return &d
	case 2:
		return &lime.Ping{}
	case 3:
		return lime.NewDocumentContainer(rdoc(r, size, depth-1))
	default:
		n := r.IntN(4)
		items := make([]lime.Document, 0, n)
		var mt lime.MediaType
		switch r.IntN(3) {
		case 0:
			mt = lime.MediaTypeTextPlain()
			for i := 0; i < n; i++ {
				d := lime.TextDocument(rtext(r, size/(n+1)))
				items = append(items, &d)
			}
		case 1:
			mt = lime.MediaTypeApplicationJson()
			for i := 0; i < n; i++ {
				d := lime.JsonDocument(rjson(r, size/(n+1), 1))
				items = append(items, &d)
			}
		default:
			mt = (&lime.DocumentContainer{}).MediaType()
			for i := 0; i < n; i++ {
				items = append(items, lime.NewDocumentContainer(rdoc(r, size/(n+1), 0)))
			}
		}
		col := lime.NewDocumentCollection(items, mt)
		if r.IntN(2) == 0 {
			col.Total = n + r.IntN(50)
		}
		return col
	}
}

func fillEnvelope(r *mrand.Rand, e *lime.Envelope, id string) {
	e.ID = id
	if r.IntN(2) == 0 {
		e.From = rnode(r)
	}
	if r.IntN(2) == 0 {
		e.To = rnode(r)
	}
	if r.IntN(5) == 0 {
		e.PP = rnode(r)
	}
	if r.IntN(3) == 0 {
		e.Metadata = map[string]string{}
		for i := 1 + r.IntN(3); i > 0; i-- {
			e.Metadata["#"+rword(r, 1+r.IntN(5))] = rtext(r, r.IntN(12))
		}
	}
}

var methods = []lime.CommandMethod{lime.CommandMethodGet, lime.CommandMethodSet, lime.CommandMethodDelete, lime.CommandMethodSubscribe, lime.CommandMethodUnsubscribe, lime.CommandMethodObserve, lime.CommandMethodMerge}
var events = []lime.NotificationEvent{lime.NotificationEventAccepted, lime.NotificationEventDispatched, lime.NotificationEventReceived, lime.NotificationEventConsumed, lime.NotificationEventFailed}

// Env is a built envelope together with its canonical JSON.
type Env struct {
	Spec  EnvSpec
	ID    string
	Kind  int
	Msg   *lime.Message
	Not   *lime.Notification
	Req   *lime.RequestCommand
	Resp  *lime.ResponseCommand
	Canon string
	// Sem is the content read off the Go value itself (semString), not through the library's
	// encoder: a comparison of two encodings says nothing when the encoder drops a field
	Sem string
}

// semString renders a value structurally (see semTree).
func semString(v interface{}) string { return fmt.Sprintf("%v", semTree(reflect.ValueOf(v))) }

// Value returns the envelope as the value accepted by Transport.Send.
func (e *Env) Value() interface{} {
	switch e.Kind {
	case KMessage:
		return e.Msg
	case KNotification:
		return e.Not
	case KRequest:
		return e.Req
	default:
		return e.Resp
	}
}

// BuildEnvelope materialises a spec. id overrides the spec's id when non-empty.
func BuildEnvelope(spec EnvSpec, id string) *Env {
	if id == "" {
		id = spec.ID
	}
	r := mrand.New(mrand.NewPCG(uint64(spec.Seed), 0x5eed))
	out := &Env{Spec: spec, ID: id, Kind: spec.Kind & 3}
	switch out.Kind {
	case KMessage:
		m := &lime.Message{}
		fillEnvelope(r, &m.Envelope, id)
		m.SetContent(rdoc(r, spec.Size, 2))
		if r.IntN(6) == 0 {
			// an unregistered media type keeps the generic document kinds
			if m.Type.IsJson() {
				m.Type = lime.MediaType{Type: "application", Subtype: "x-" + rword(r, 4), Suffix: "json"}
				d := lime.JsonDocument(rjson(r, spec.Size, 1))
				m.Content = &d
			} else if _, ok := m.Content.(*lime.TextDocument); ok {
				m.Type = lime.MediaType{Type: "text", Subtype: "x-" + rword(r, 4)}
			}
		}
		out.Msg = m
		out.Canon = canonJSON(m)
		out.Sem = semString(m)
	case KNotification:
		n := &lime.Notification{}
		fillEnvelope(r, &n.Envelope, id)
		n.Event = events[r.IntN(len(events))]
		if n.Event == lime.NotificationEventFailed || r.IntN(8) == 0 {
			n.Reason = &lime.Reason{Code: 1 + r.IntN(90), Description: rtext(r, spec.Size)}
		} else if spec.Size > 0 {
			if n.Metadata == nil {
				n.Metadata = map[string]string{}
			}
			n.Metadata["pad"] = rtext(r, spec.Size)
		}
		out.Not = n
		out.Canon = canonJSON(n)
		out.Sem = semString(n)
	case KRequest:
		c := &lime.RequestCommand{}
		fillEnvelope(r, &c.Envelope, id)
		c.Method = methods[r.IntN(len(methods))]
		uri := "/" + rword(r, 1+r.IntN(8))
		if r.IntN(3) == 0 {
			uri = "lime://" + rword(r, 3) + "@" + rword(r, 3) + ".org/" + rword(r, 4)
		}
		if r.IntN(3) == 0 {
			uri += "?" + rword(r, 2) + "=" + rword(r, 3)
		}
		c.SetURIString(uri)
		if c.URI == nil {
			c.SetURIString("/fallback")
		}
		if r.IntN(2) == 0 || spec.Size > 0 {
			c.SetResource(rdoc(r, spec.Size, 2))
		}
		out.Req = c
		out.Canon = canonJSON(c)
		out.Sem = semString(c)
	default:
		c := &lime.ResponseCommand{}
		fillEnvelope(r, &c.Envelope, id)
		c.Method = methods[r.IntN(len(methods))]
		if r.IntN(3) == 0 {
			c.Status = lime.CommandStatusFailure
			c.Reason = &lime.Reason{Code: 1 + r.IntN(90), Description: rtext(r, spec.Size)}
		} else {
			c.Status = lime.CommandStatusSuccess
			if r.IntN(2) == 0 || spec.Size > 0 {
				c.SetResource(rdoc(r, spec.Size, 2))
			}
		}
		out.Resp = c
		out.Canon = canonJSON(c)
		out.Sem = semString(c)
	}
	return out
}

// Describe identifies an arbitrary received envelope: kind, id and canonical JSON.
func Describe(v interface{}) (kind int, id string, canon string) {
	switch e := v.(type) {
	case *lime.Message:
		return KMessage, e.ID, canonJSON(e)
	case *lime.Notification:
		return KNotification, e.ID, canonJSON(e)
	case *lime.RequestCommand:
		return KRequest, e.ID, canonJSON(e)
	case *lime.ResponseCommand:
		return KResponse, e.ID, canonJSON(e)
	case *lime.Session:
		return 4, e.ID, canonJSON(e)
	}
	return -1, "", fmt.Sprintf("%T", v)
}
