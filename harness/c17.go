package harness

import (
	"context"
	"fmt"
	"net"
	"strings"
	"time"

	lime "github.com/takenet/lime-go"
	"verifsim/simnet"
	"verifsim/simrt"
)

// PlanC17 runs several concurrent sessions on one server.
type PlanC17 struct {
	Conf     FullConf  `json:"conf"`
	Clients  []CliSpec `json:"clients"`
	StartMs  []int     `json:"start_ms"`
	NMsg     []int     `json:"n_msg"`
	GapMs    []int     `json:"gap_ms"`
	SrvDelay []int     `json:"srv_delay_ms"`
	Latency  int       `json:"latency_ms"`
	// Abort[i] = k > 0: client i resets its connection (RST) right after its k-th message, without
	// waiting for the replies: the server's writes on that session fail while the others go on
	Abort []int `json:"abort,omitempty"`
	// NCmd[i]: client i also runs that many request/response exchanges (ProcessCommand) with
	// command ids that every client uses alike ("q0", "q1", ...): ids only mean something per session
	NCmd []int `json:"n_cmd,omitempty"`
	// NPing[i]: in-process client i pings that many times (the server is then built with
	// AutoReplyPings; over the other transports the stock ping reply does not decode, see C11)
	NPing []int `json:"n_ping,omitempty"`
	// Bcast: the server application sends that many envelopes, each ONE object without a
	// destination, through the channels of all sessions (a broadcast, as a relay or chat server
	// does); Rot rotates the order in which the sessions are served
	Bcast int `json:"bcast,omitempty"`
	// Intruder: once client 0 has its session, a scripted peer opens a connection of its own and
	// presents that session's id in its new-session envelope, then goes through the handshake as
	// far as the server lets it
	Intruder bool `json:"intruder,omitempty"`
}

func genC17(t *simrt.Tape, tier string) interface{} {
	p := &PlanC17{}
	p.Conf = GenFullConf(t, 1+t.Draw(3))
	n := 2 + t.Draw(5)
	for i := 0; i < n; i++ {
		c := GenCliSpec(t, len(p.Conf.Listeners))
		c.High = false
		FixSelector(p.Conf.Listeners[c.L], &c)
		p.Clients = append(p.Clients, c)
		p.StartMs = append(p.StartMs, []int{0, 0, 0, 1, 5, 40}[t.Draw(6)])
		p.NMsg = append(p.NMsg, 1+t.Draw(6))
		p.GapMs = append(p.GapMs, []int{0, 0, 1, 10}[t.Draw(4)])
		ab := 0
		if t.Draw(5) == 0 {
			ab = 1 + t.Draw(3)
		}
		p.Abort = append(p.Abort, ab)
		p.NCmd = append(p.NCmd, []int{0, 0, 1, 3}[t.Draw(4)])
		p.NPing = append(p.NPing, []int{0, 0, 2, 4}[t.Draw(4)])
	}
	for i := t.Draw(3); i > 0; i-- {
		p.SrvDelay = append(p.SrvDelay, []int{0, 1, 20}[t.Draw(3)])
	}
	p.Latency = []int{0, 0, 2, 30}[t.Draw(4)]
	p.Bcast = []int{0, 0, 1, 3}[t.Draw(4)]
	p.Intruder = t.Draw(4) == 0
	if t.Draw(4) == 0 {
		// a connection pool: several clients present one and the same candidate node, their
		// registrations overlap on a backend that takes its time
		for i := range p.Clients {
			if t.Draw(3) != 0 {
				p.Clients[i].Pooled = true
				p.Clients[i].Auth = "plain"
				p.StartMs[i] = 0
			}
		}
		p.Conf.RegDelayMs = []int{1, 10, 100}[t.Draw(3)]
	}
	return p
}

func runC17(w *World, pi interface{}) {
	p := pi.(*PlanC17)
	if len(p.Conf.Listeners) == 0 || len(p.Clients) == 0 {
		return
	}
	if len(p.Conf.Listeners) > 3 {
		p.Conf.Listeners = p.Conf.Listeners[:3]
	}
	if len(p.Clients) > 6 {
		p.Clients = p.Clients[:6]
	}
	type hrec struct {
		msgID         string
		sid           string
		remote, local string
		okS, okR, okL bool
	}
	var hrecs []hrec
	nSrv := 0
	for i, n := range p.NPing {
		if n > 0 && i < len(p.Clients) && p.Clients[i].L >= 0 && p.Clients[i].L < len(p.Conf.Listeners) && p.Conf.Listeners[p.Clients[i].L] == "inproc" {
			p.Conf.AutoPing = true
		}
	}
	type pong struct {
		who  int
		want string
		resp *lime.ResponseCommand
	}
	var pongs []pong
	f, err := StartFull(w, p.Conf, 8300, nil)
	if err != nil {
		return
	}
	f.OnEnv = func(ctx context.Context, kind int, env interface{}, s lime.Sender) error {
		if rq, isReq := env.(*lime.RequestCommand); isReq {
			// answered through the sender that came with the request, tagged with the session of its context
			sid, _ := lime.ContextSessionID(ctx)
			resp := &lime.ResponseCommand{}
			resp.ID = rq.ID
			resp.Method = rq.Method
			resp.Status = lime.CommandStatusSuccess
			resp.Metadata = map[string]string{"sid": sid}
			rctx, cancel := context.WithTimeout(ctx, 30*time.Second)
			defer cancel()
			s.SendResponseCommand(rctx, resp)
			return nil
		}
		m, ok := env.(*lime.Message)
		if !ok {
			return nil
		}
		r := hrec{msgID: m.ID}
		var rn, ln lime.Node
		r.sid, r.okS = lime.ContextSessionID(ctx)
		rn, r.okR = lime.ContextSessionRemoteNode(ctx)
		ln, r.okL = lime.ContextSessionLocalNode(ctx)
		r.remote, r.local = rn.String(), ln.String()
		hrecs = append(hrecs, r)
		if len(p.SrvDelay) > 0 {
			if d := p.SrvDelay[nSrv%len(p.SrvDelay)]; d > 0 {
				time.Sleep(time.Duration(d) * time.Millisecond)
			}
		}
		nSrv++
		// reply through the sender that was handed to the handler
		txt := lime.TextDocument("re:" + m.ID)
		reply := &lime.Message{}
		reply.SetContent(&txt).SetID("re:" + m.ID)
		rctx, cancel := context.WithTimeout(ctx, 30*time.Second)
		defer cancel()
		s.SendMessage(rctx, reply)
		return nil
	}
	defer f.Close()
	if !f.WaitListening() {
		return
	}
	if p.Latency > 0 {
		w.Net.OnLink = func(lk *simnet.Link) {
			fs := NoFaults()
			fs.LatencyMs = []int{p.Latency}
			fs.Apply(w, lk.AB)
			fs.Apply(w, lk.BA)
		}
	}
	w.Armed = true
	type cst struct {
		ok     bool
		sid    string
		local  string // the node announced to the client
		remote string
		got    []string
		bcTo   map[string]string // broadcast id -> destination it carried on arrival
		sent   []string
		done   *Flag
		err    error
		ch     *lime.ClientChannel

		aborted bool
	}
	cs := make([]*cst, len(p.Clients))
	for i := range p.Clients {
		i := i
		c := &cst{done: NewFlag(), bcTo: map[string]string{}}
		cs[i] = c
		go func() {
			defer c.done.Set()
			if i < len(p.StartMs) {
				time.Sleep(time.Duration(p.StartMs[i]) * time.Millisecond)
			}
			spec := p.Clients[i]
			if spec.L < 0 || spec.L >= len(p.Conf.Listeners) {
				spec.L = 0
			}
			FixSelector(p.Conf.Listeners[spec.L], &spec)
			ctx, cancel := context.WithTimeout(context.Background(), 2*time.Minute)
			ch, ses, err := f.ConnectChannel(ctx, spec, i)
			cancel()
			c.ch = ch
			if err != nil || ses == nil || ses.State != lime.SessionStateEstablished {
				c.err = err
				return
			}
			c.ok = true
			c.sid = ses.ID
			c.local = ses.To.String()
			c.remote = ses.From.String()
			go func() {
				for m := range ch.MsgChan() {
					if strings.HasPrefix(m.ID, "bc.") {
						c.bcTo[m.ID] = m.To.String()
						continue
					}
					c.got = append(c.got, m.ID)
				}
			}()
			go func() {
				for range ch.NotChan() {
				}
			}()
			go func() {
				for range ch.ReqCmdChan() {
				}
			}()
			go func() {
				for range ch.RespCmdChan() {
				}
			}()
			n := 1
			if i < len(p.NMsg) {
				n = p.NMsg[i]
			}
			for j := 0; j < n; j++ {
				id := fmt.Sprintf("c%d.%d", i, j)
				txt := lime.TextDocument(id)
				m := &lime.Message{}
				m.SetContent(&txt).SetID(id)
				sctx, scancel := context.WithTimeout(context.Background(), time.Minute)
				err := ch.SendMessage(sctx, m)
				scancel()
				if err != nil {
					break
				}
				c.sent = append(c.sent, id)
				if i < len(p.Abort) && p.Abort[i] == j+1 {
					// gone without a word: the replies under way have nowhere to go
					c.aborted = true
					w.Count("client-reset-its-connection")
					if lk := w.LinkOfLocal(localAddrOf(f.CliTransports[i])); lk != nil {
						lk.Cut(simnet.CutRST)
					} else {
						ch.Close()
					}
					return
				}
				if i < len(p.GapMs) && p.GapMs[i] > 0 {
					time.Sleep(time.Duration(p.GapMs[i]) * time.Millisecond)
				}
			}
			if i < len(p.NCmd) {
				for j := 0; j < p.NCmd[i]; j++ {
					cmd := &lime.RequestCommand{}
					cmd.ID = fmt.Sprintf("q%d", j)
					cmd.Method = lime.CommandMethodGet
					cmd.SetURIString("/whoami")
					pctx, pcancel := context.WithTimeout(context.Background(), 30*time.Second)
					resp, err := ch.ProcessCommand(pctx, cmd)
					pcancel()
					switch {
					case err != nil && strings.Contains(err.Error(), "already in use"):
						w.Violate("C17.command-id-collides-across-sessions", "in-use", "client %d (session %s) was refused command id %q as already in use, although nothing is pending on its own session: %v", i, c.sid, cmd.ID, err)
					case err == nil && resp != nil && resp.Metadata["sid"] != c.sid:
						w.Violate("C17.reply-crossed-sessions", "command", "client %d (session %s) got, for its command %q, the response the server wrote on session %q", i, c.sid, cmd.ID, resp.Metadata["sid"])
					case err != nil:
						w.Count("command-failed")
					}
				}
			}
			if i < len(p.NPing) && p.Conf.AutoPing && p.Conf.Listeners[spec.L] == "inproc" {
				for j := 0; j < p.NPing[i]; j++ {
					cmd := &lime.RequestCommand{}
					cmd.ID = fmt.Sprintf("ping%d.%d", i, j)
					cmd.Method = lime.CommandMethodGet
					cmd.SetURIString("/ping")
					pctx, pcancel := context.WithTimeout(context.Background(), 30*time.Second)
					resp, err := ch.ProcessCommand(pctx, cmd)
					pcancel()
					if err == nil && resp != nil {
						// kept: what one session was handed must not change when another session pings
						pongs = append(pongs, pong{i, cmd.ID, resp})
					} else {
						w.Count("ping-failed")
					}
				}
			}
			// wait for the replies
			w.Eventually(time.Minute, func() bool { return len(c.got) >= len(c.sent) })
		}()
	}
	intruderSid := ""
	intrDone := NewFlag()
	go func() {
		defer intrDone.Set()
		if !p.Intruder || len(cs) == 0 {
			return
		}
		w.Eventually(5*time.Minute, func() bool { return cs[0].ok || cs[0].done.IsSet() })
		if !cs[0].ok {
			return
		}
		li := p.Clients[0].L
		if li < 0 || li >= len(p.Conf.Listeners) {
			li = 0
		}
		ih := &History{}
		var peer *RawPeer
		var err error
		switch p.Conf.Listeners[li] {
		case "tcp", "tcptls":
			peer, err = DialRawTCP(w, ih, 0, tcpAddr(f.BasePort+li).String())
		case "ws":
			peer, err = DialRawWS(w, ih, 0, fmt.Sprintf("ws://127.0.0.1:%d", f.BasePort+li), nil)
		case "wss":
			_, cli := TLSConfigs()
			peer, err = DialRawWS(w, ih, 0, fmt.Sprintf("wss://127.0.0.1:%d", f.BasePort+li), cli)
		default:
			peer, err = DialRawInProc(w, ih, 0, f.InProc[li], 2)
		}
		if err != nil {
			return
		}
		defer peer.Close()
		peer.ForceID = cs[0].sid
		w.Count("intruder-presented-a-live-session-id")
		ScriptRun(w, peer, []Step{{Op: "session", State: "new", IDMode: 4}, {Op: "auto", Choice: 1}, {Op: "auto", Choice: 1}, {Op: "auto", Choice: 1}, {Op: "auto", Choice: 1}})
		if lf := peer.LastSessionFrame(); fstr(lf, "state") == "established" {
			intruderSid = fstr(lf, "id")
		}
		time.Sleep(time.Second)
	}()
	bcDone := NewFlag()
	go func() {
		defer bcDone.Set()
		if p.Bcast <= 0 {
			return
		}
		// once every client has its session (or has given up)
		w.Eventually(5*time.Minute, func() bool {
			for _, c := range cs {
				if !c.ok && !c.done.IsSet() {
					return false
				}
			}
			return true
		})
		for b := 0; b < p.Bcast && b < 4; b++ {
			txt := lime.TextDocument("to whom it may concern")
			m := &lime.Message{}
			m.SetContent(&txt).SetID(fmt.Sprintf("bc.%d", b))
			ids := append([]string(nil), f.SessOrd...)
			for k := range ids {
				si := f.Sess[ids[(k+b)%len(ids)]]
				if si == nil || si.Ch == nil {
					continue
				}
				bctx, bcancel := context.WithTimeout(context.Background(), 10*time.Second)
				_ = si.Ch.SendMessage(bctx, m) // the same object for everybody
				bcancel()
			}
			w.Count("broadcast")
		}
	}()
	for _, c := range cs {
		c.done.WaitFor(10 * time.Minute)
	}
	bcDone.WaitFor(10 * time.Minute)
	intrDone.WaitFor(10 * time.Minute)
	time.Sleep(2 * time.Second)
	sig := func(what string) string { return what }
	if intruderSid != "" && len(cs) > 0 && intruderSid == cs[0].sid {
		w.Violate("C17.session-id-not-distinct", sig("presented id"), "a second connection that presented the id of client 0's live session (%s) in its new-session envelope was established under that very id", intruderSid)
	}
	// distinct ids, matching the server's view
	seen := map[string]int{}
	for i, c := range cs {
		if !c.ok {
			w.Violate("C17.client-not-served", sig("transport="+p.Conf.Listeners[p.Clients[i].L]), "client %d (%s) did not get a session on a fault-free network: %v", i, p.Conf.Listeners[p.Clients[i].L], c.err)
			continue
		}
		if j, dup := seen[c.sid]; dup {
			w.Violate("C17.session-id-not-distinct", sig("id"), "clients %d and %d were announced the same session id %s", j, i, c.sid)
		}
		seen[c.sid] = i
		if f.Sess[c.sid] == nil {
			w.Violate("C17.announced-id-unknown-to-server", sig("id"), "client %d was announced session id %s, for which the server has no session", i, c.sid)
		}
	}
	owner := func(msgID string) int {
		var i, j int
		if _, err := fmt.Sscanf(msgID, "c%d.%d", &i, &j); err == nil && i >= 0 && i < len(cs) {
			return i
		}
		return -1
	}
	for _, r := range hrecs {
		i := owner(r.msgID)
		if i < 0 || !cs[i].ok {
			continue
		}
		c := cs[i]
		if !r.okS || r.sid != c.sid {
			w.Violate("C17.handler-context-wrong-session-id", sig("id"), "the handler for %s (sent on session %s) ran with session id %q in its context", r.msgID, c.sid, r.sid)
		}
		if !r.okR || r.remote != c.local {
			w.Violate("C17.handler-context-wrong-remote-node", sig("remote"), "the handler for %s ran with remote node %q, the node registered for that session is %q", r.msgID, r.remote, c.local)
		}
		if !r.okL || r.local != serverNode.String() {
			w.Violate("C17.handler-context-wrong-local-node", sig("local"), "the handler for %s ran with local node %q, the server node is %q", r.msgID, r.local, serverNode.String())
		}
	}
	for i, c := range cs {
		if !c.ok {
			continue
		}
		for _, id := range c.got {
			if !strings.HasPrefix(id, "re:") || owner(id[3:]) != i {
				w.Violate("C17.envelope-crossed-sessions", sig("reply"), "client %d received %q, which belongs to another session", i, id)
			}
		}
		if len(c.got) < len(c.sent) && !c.aborted {
			w.Violate("C17.reply-did-not-reach-originator", sig("reply"), "client %d sent %v and received only %v through the handler's sender", i, c.sent, c.got)
		}
	}
	// the address announced to a session is the one the registration callback returned for that session
	regOf := map[string]string{}
	for _, e := range f.H.Ev {
		if e.Kind == "reg" {
			regOf[fstr(e.Frame, "id")] = fstr(e.Frame, "node")
		}
	}
	for i, c := range cs {
		if !c.ok {
			continue
		}
		if n, ok := regOf[c.sid]; !ok {
			w.Violate("C17.announced-node-not-registered-for-session", sig("never asked"), "client %d (session %s) was announced node %s, but the registration callback was never asked for an address for that session", i, c.sid, c.local)
		} else if n != c.local {
			w.Violate("C17.announced-node-not-registered-for-session", sig("other node"), "client %d (session %s) was announced node %s, the registration callback had returned %s for that session", i, c.sid, c.local, n)
		}
	}
	// a broadcast envelope carries no destination or the receiver's own node, never another session's
	for i, c := range cs {
		if !c.ok {
			continue
		}
		bids := make([]string, 0, len(c.bcTo))
		for id := range c.bcTo {
			bids = append(bids, id)
		}
		sortStrings(bids)
		for _, id := range bids {
			if to := c.bcTo[id]; to != "" && to != c.local {
				w.Violate("C17.node-address-crossed-sessions", sig("broadcast"), "client %d (announced node %s) received the broadcast envelope %s addressed to %s, the node of another session", i, c.local, id, to)
				break
			}
		}
	}
	for _, pg := range pongs {
		if pg.resp.ID != pg.want {
			w.Violate("C17.reply-crossed-sessions", "ping", "the reply client %d was handed for its ping %q now carries id %q: the envelope is shared with another session's reply", pg.who, pg.want, pg.resp.ID)
		}
	}
	for _, c := range cs {
		if c.ch != nil {
			c.ch.Close()
		}
	}
}

func init() {
	register(&PropDef{
		ID:     "C17",
		New:    func() interface{} { return &PlanC17{} },
		Gen:    genC17,
		Run:    runC17,
		MaxSim: 2 * time.Hour,
		Rule: "plans = (one server with 1-3 listeners of mixed kinds, 2-6 concurrent real clients over mixed transports with start offsets and per-write latency, registration assigning derived or colliding-looking addresses, 1-6 tagged messages per client, clients that reset their connection after their k-th message, request/response exchanges with command ids shared by all clients, pings of in-process clients against AutoReplyPings, " +
			"handler delays; every handler records ContextSessionID/RemoteNode/LocalNode and replies through the Sender it was handed); oracle: context values equal those of the session the envelope was sent on, replies reach the originator and nobody else, " +
			"a server application that broadcasts one envelope object through all sessions; pooled clients presenting one and the same candidate node to a slow registration callback; the announced node is the one the callback returned for that very session; " +
			"announced ids pairwise distinct and known to the server; non-trivial = server started; distinct = distinct (plan JSON, event-log hash)",
	})
}

func localAddrOf(t lime.Transport) net.Addr {
	if t == nil {
		return nil
	}
	return t.LocalAddr()
}
