package harness

import (
	"context"
	"crypto/tls"
	"encoding/json"
	"fmt"
	"net"
	"net/http"
	"strings"
	"time"

	"github.com/gorilla/websocket"
	lime "github.com/takenet/lime-go"
	"verifsim/simnet"
	"verifsim/simrt"
)

// HEvent is one entry of a run's recorded history. Entries are appended by whichever task
// observes them; only one task runs at a time, so append order is the real order.
type HEvent struct {
	Seq   int                    `json:"seq"`
	Step  int                    `json:"step"`
	AtMs  int64                  `json:"at_ms"`
	Conn  int                    `json:"conn"`
	Kind  string                 `json:"kind"` // c-send, c-bytes, s-frame, s-garbage, s-close, c-close, auth, reg, cb-established, cb-finished, estab-return, tls, handler, ...
	Frame map[string]interface{} `json:"frame,omitempty"`
	Raw   string                 `json:"raw,omitempty"`
	Note  string                 `json:"note,omitempty"`
}

// History is the shared event record of a run.
type History struct {
	Ev []HEvent
}

func (h *History) Add(conn int, kind string, frame map[string]interface{}, raw, note string) *HEvent {
	h.Ev = append(h.Ev, HEvent{Seq: len(h.Ev), Step: simrt.Step(), AtMs: int64(simrt.Now() / time.Millisecond), Conn: conn, Kind: kind, Frame: frame, Raw: short(raw, 300), Note: note})
	return &h.Ev[len(h.Ev)-1]
}

// Of returns the events of one connection with the given kinds (all kinds when none given).
func (h *History) Of(conn int, kinds ...string) []HEvent {
	var out []HEvent
	for _, e := range h.Ev {
		if e.Conn != conn {
			continue
		}
		if len(kinds) == 0 {
			out = append(out, e)
			continue
		}
		for _, k := range kinds {
			if e.Kind == k {
				out = append(out, e)
				break
			}
		}
	}
	return out
}

func (h *History) Dump(max int) string {
	var sb strings.Builder
	for i, e := range h.Ev {
		if i >= max {
			fmt.Fprintf(&sb, "... %d more\n", len(h.Ev)-max)
			break
		}
		fr := ""
		if e.Frame != nil {
			fr = short(canonJSON(e.Frame), 160)
		}
		fmt.Fprintf(&sb, "%d t=%dms c%d %s %s %s %s\n", e.Seq, e.AtMs, e.Conn, e.Kind, fr, e.Raw, e.Note)
	}
	return sb.String()
}

func fstr(m map[string]interface{}, k string) string {
	if m == nil {
		return ""
	}
	s, _ := m[k].(string)
	return s
}

func fstrs(m map[string]interface{}, k string) []string {
	var out []string
	if arr, ok := m[k].([]interface{}); ok {
		for _, x := range arr {
			if s, ok := x.(string); ok {
				out = append(out, s)
			}
		}
	}
	return out
}

func isSessionFrame(m map[string]interface{}) bool {
	_, ok := m["state"]
	return ok
}

// RawPeer is a scripted endpoint that speaks raw frames to a real lime endpoint.
type RawPeer struct {
	w       *World
	h       *History
	Idx     int
	Kind    string // tcp, ws, inproc
	raw     *simnet.Conn
	conn    net.Conn // raw or TLS
	ws      *websocket.Conn
	tr      lime.Transport
	TLS     bool
	WSS     bool
	closed  *Flag // the remote side ended the connection (EOF, reset, error)
	nFrame  int
	newFrm  chan struct{}
	reader  *Flag // set when the current reader task has exited
	pause   bool  // reader stopped because a TLS confirmation arrived
	pausing bool  // PauseReader is interrupting the reader
	Link    *simnet.Link
	// ReadGate, when set, is called by the in-process reader before every Receive.
	ReadGate func()
	// HelloDelim / HelloSplit shape the first TLS flight this peer writes in UpgradeTLS: JSON
	// whitespace (an envelope delimiter that is late) travels in front of it in the same segment,
	// and the flight is cut after HelloSplit bytes (0: not at all). Legal for any endpoint.
	HelloDelim string
	HelloSplit int
	// CloseBlocked: Close of the in-process transport did not return within 30 simulated seconds
	CloseBlocked bool
	// ForceID is the session id a scripted step with id mode 4 presents
	ForceID string
}

// helloConn writes the first TLS flight as delim+flight[:split], a pause, flight[split:].
type helloConn struct {
	net.Conn
	delim string
	split int
	done  bool
}

func (c *helloConn) Write(b []byte) (int, error) {
	if c.done {
		return c.Conn.Write(b)
	}
	c.done = true
	k := c.split
	if k <= 0 || k > len(b) {
		k = len(b)
	}
	first := append([]byte(c.delim), b[:k]...)
	if _, err := c.Conn.Write(first); err != nil {
		return 0, err
	}
	if k < len(b) {
		time.Sleep(time.Millisecond)
		if _, err := c.Conn.Write(b[k:]); err != nil {
			return k, err
		}
	}
	return len(b), nil
}

// DialRawTCP connects a raw scripted client to addr.
func DialRawTCP(w *World, h *History, idx int, addr string) (*RawPeer, error) {
	c, err := w.Net.Dial(context.Background(), addr)
	if err != nil {
		return nil, err
	}
	p := &RawPeer{w: w, h: h, Idx: idx, Kind: "tcp", raw: c, conn: c, closed: NewFlag(), newFrm: make(chan struct{}, 64), Link: c.Link()}
	p.startReader()
	return p, nil
}

// NewRawTCPFromConn wraps an accepted raw connection (scripted server role).
func NewRawTCPFromConn(w *World, h *History, idx int, c *simnet.Conn) *RawPeer {
	p := &RawPeer{w: w, h: h, Idx: idx, Kind: "tcp", raw: c, conn: c, closed: NewFlag(), newFrm: make(chan struct{}, 64), Link: c.Link()}
	p.startReader()
	return p
}

// DialRawWS connects a raw websocket client (real gorilla framing, arbitrary payloads).
func DialRawWS(w *World, h *History, idx int, url string, tlsCfg *tls.Config) (*RawPeer, error) {
	var link *simnet.Link
	prev := w.Net.OnLink
	w.Net.OnLink = func(lk *simnet.Link) {
		if link == nil {
			link = lk
		}
		if prev != nil {
			prev(lk)
		}
	}
	d := websocket.Dialer{NetDialContext: simnet.DialContext, Subprotocols: []string{"lime"}, EnableCompression: swarm.WSCompress, TLSClientConfig: tlsCfg}
	ctx, cancel := context.WithTimeout(context.Background(), time.Minute)
	defer cancel()
	ws, _, err := d.DialContext(ctx, url, http.Header{})
	w.Net.OnLink = prev
	if err != nil {
		return nil, err
	}
	p := &RawPeer{w: w, h: h, Idx: idx, Kind: "ws", ws: ws, closed: NewFlag(), newFrm: make(chan struct{}, 64), Link: link, WSS: strings.HasPrefix(url, "wss:")}
	p.startReader()
	return p, nil
}

// DialRawInProc connects through the in-process transport (well-formed envelopes only).
func DialRawInProc(w *World, h *History, idx int, addr lime.InProcessAddr, buf int) (*RawPeer, error) {
	t, err := lime.DialInProcess(addr, buf)
	if err != nil {
		return nil, err
	}
	p := &RawPeer{w: w, h: h, Idx: idx, Kind: "inproc", tr: t, closed: NewFlag(), newFrm: make(chan struct{}, 64)}
	if rawInProcDeaf {
		// a peer that never reads what it is sent (it talks, then leaves)
		p.ReadGate = func() { time.Sleep(6 * time.Hour) }
	}
	p.startReader()
	return p, nil
}

// rawInProcDeaf makes the in-process scripted peers dialled from now on deaf (set per scenario).
var rawInProcDeaf bool

// NewRawInProcFromTransport wraps the accepted end of an in-process connection as a scripted peer.
func NewRawInProcFromTransport(w *World, h *History, idx int, t lime.Transport) *RawPeer {
	p := &RawPeer{w: w, h: h, Idx: idx, Kind: "inproc", tr: t, closed: NewFlag(), newFrm: make(chan struct{}, 64)}
	p.startReader()
	return p
}

func (p *RawPeer) note(kind string, frame map[string]interface{}, raw, note string) {
	p.h.Add(p.Idx, kind, frame, raw, note)
}

func (p *RawPeer) gotFrame(kind string, m map[string]interface{}, raw string) {
	p.nFrame++
	enc := "cleartext"
	if p.TLS || p.WSS {
		enc = "tls"
	}
	p.note(kind, m, raw, enc)
	select {
	case p.newFrm <- struct{}{}:
	default:
	}
}

func (p *RawPeer) startReader() {
	done := NewFlag()
	p.reader = done
	p.pause = false
	switch p.Kind {
	case "tcp":
		conn := p.conn
		go func() {
			defer done.Set()
			dec := json.NewDecoder(conn)
			for {
				var raw json.RawMessage
				if err := dec.Decode(&raw); err != nil {
					if p.pausing {
						// interrupted by PauseReader: the connection goes to the script
						p.pause = true
						return
					}
					if !p.closed.IsSet() {
						p.note("s-close", nil, "", err.Error())
						p.closed.Set()
					}
					return
				}
				var m map[string]interface{}
				if err := json.Unmarshal(raw, &m); err != nil || m == nil {
					p.gotFrame("s-garbage", nil, string(raw))
					continue
				}
				p.gotFrame("s-frame", m, "")
				if !p.TLS && fstr(m, "state") == "negotiating" && fstr(m, "encryption") == "tls" {
					// the next bytes belong to the TLS handshake: hand the connection to the script
					p.pause = true
					return
				}
			}
		}()
	case "ws":
		go func() {
			defer done.Set()
			for {
				_, b, err := p.ws.ReadMessage()
				if err != nil {
					if !p.closed.IsSet() {
						p.note("s-close", nil, "", err.Error())
						p.closed.Set()
					}
					return
				}
				var m map[string]interface{}
				if err := json.Unmarshal(b, &m); err != nil || m == nil {
					p.gotFrame("s-garbage", nil, string(b))
					continue
				}
				p.gotFrame("s-frame", m, "")
			}
		}()
	case "inproc":
		go func() {
			defer done.Set()
			for {
				if p.ReadGate != nil {
					p.ReadGate() // a peer that stops reading for a while
				}
				ctx, cancel := context.WithTimeout(context.Background(), 6*time.Hour)
				env, err := p.tr.Receive(ctx)
				cancel()
				if err != nil {
					if !p.closed.IsSet() {
						p.note("s-close", nil, "", err.Error())
						p.closed.Set()
					}
					return
				}
				var m map[string]interface{}
				json.Unmarshal([]byte(canonJSON(env)), &m)
				p.gotFrame("s-frame", m, "")
			}
		}()
	}
}

// Frames returns the frames received so far.
func (p *RawPeer) Frames() []HEvent { return p.h.Of(p.Idx, "s-frame") }

// LastFrame returns the latest frame received (nil if none).
func (p *RawPeer) LastFrame() map[string]interface{} {
	fr := p.Frames()
	if len(fr) == 0 {
		return nil
	}
	return fr[len(fr)-1].Frame
}

// LastSessionFrame returns the latest session frame received.
func (p *RawPeer) LastSessionFrame() map[string]interface{} {
	fr := p.Frames()
	for i := len(fr) - 1; i >= 0; i-- {
		if isSessionFrame(fr[i].Frame) {
			return fr[i].Frame
		}
	}
	return nil
}

// AwaitFrame waits until a frame beyond the first n has arrived, the peer closed, or d passed.
func (p *RawPeer) AwaitFrame(n int, d time.Duration) bool {
	deadline := time.NewTimer(d)
	defer deadline.Stop()
	for {
		if p.nFrame > n {
			return true
		}
		if p.closed.IsSet() {
			return p.nFrame > n
		}
		select {
		case <-p.newFrm:
		case <-p.closed.C():
		case <-deadline.C:
			return p.nFrame > n
		}
	}
}

// NFrames is the number of frames (of any kind) received so far.
func (p *RawPeer) NFrames() int { return p.nFrame }

// RemoteClosed reports whether the other side ended the connection.
func (p *RawPeer) RemoteClosed() *Flag { return p.closed }

// SendJSON writes one frame.
func (p *RawPeer) SendJSON(m map[string]interface{}) error {
	b, _ := json.Marshal(m)
	if p.Kind == "inproc" && !inProcSendable(m) {
		// not a well-formed envelope: it cannot travel over the in-process transport at all
		p.note("c-skip", m, "", "not representable on the in-process transport")
		return nil
	}
	p.note("c-send", m, "", "")
	return p.write(b, m)
}

func inProcSendable(m map[string]interface{}) bool {
	b, _ := json.Marshal(m)
	switch {
	case isSessionFrame(m):
		var s lime.Session
		return json.Unmarshal(b, &s) == nil
	case m["content"] != nil:
		var e lime.Message
		return json.Unmarshal(b, &e) == nil
	case m["event"] != nil:
		var e lime.Notification
		return json.Unmarshal(b, &e) == nil
	case m["uri"] != nil:
		var e lime.RequestCommand
		return json.Unmarshal(b, &e) == nil
	case m["status"] != nil:
		var e lime.ResponseCommand
		return json.Unmarshal(b, &e) == nil
	}
	return false
}

// SendBytes writes arbitrary bytes (no newline is added).
func (p *RawPeer) SendBytes(b []byte, note string) error {
	p.note("c-bytes", nil, string(b), note)
	switch p.Kind {
	case "tcp":
		p.conn.SetWriteDeadline(time.Now().Add(30 * time.Second))
		_, err := p.conn.Write(b)
		return err
	case "ws":
		p.ws.SetWriteDeadline(time.Now().Add(30 * time.Second))
		return p.ws.WriteMessage(websocket.TextMessage, b)
	}
	return nil
}

func (p *RawPeer) write(b []byte, m map[string]interface{}) error {
	switch p.Kind {
	case "tcp":
		p.conn.SetWriteDeadline(time.Now().Add(30 * time.Second))
		_, err := p.conn.Write(append(b, '\n'))
		return err
	case "ws":
		p.ws.SetWriteDeadline(time.Now().Add(30 * time.Second))
		return p.ws.WriteMessage(websocket.TextMessage, b)
	default:
		ctx, cancel := context.WithTimeout(context.Background(), 30*time.Second)
		defer cancel()
		return sendMapInProc(ctx, p.tr, m)
	}
}

// sendMapInProc turns a frame map into a typed envelope; frames that are no valid envelope
// cannot travel over the in-process transport and are skipped.
func sendMapInProc(ctx context.Context, t lime.Transport, m map[string]interface{}) error {
	b, _ := json.Marshal(m)
	if isSessionFrame(m) {
		var s lime.Session
		if err := json.Unmarshal(b, &s); err != nil {
			return nil
		}
		return t.Send(ctx, &s)
	}
	if _, ok := m["content"]; ok {
		var e lime.Message
		if err := json.Unmarshal(b, &e); err != nil {
			return nil
		}
		return t.Send(ctx, &e)
	}
	if _, ok := m["event"]; ok {
		var e lime.Notification
		if err := json.Unmarshal(b, &e); err != nil {
			return nil
		}
		return t.Send(ctx, &e)
	}
	if _, ok := m["uri"]; ok {
		var e lime.RequestCommand
		if err := json.Unmarshal(b, &e); err != nil {
			return nil
		}
		return t.Send(ctx, &e)
	}
	if _, ok := m["status"]; ok {
		var e lime.ResponseCommand
		if err := json.Unmarshal(b, &e); err != nil {
			return nil
		}
		return t.Send(ctx, &e)
	}
	return nil
}

// NeedsTLS reports whether the reader stopped on a TLS negotiation confirmation.
func (p *RawPeer) NeedsTLS() bool { return p.Kind == "tcp" && p.pause && !p.TLS }

// UpgradeTLS performs the TLS handshake in the given role and resumes reading.
func (p *RawPeer) UpgradeTLS(server bool) error {
	srvCfg, cliCfg := TLSConfigs()
	p.reader.WaitFor(time.Minute)
	// the envelope delimiter behind the last cleartext envelope may still be on its way: like any
	// robust endpoint the scripted one skips JSON whitespace in front of the first TLS record
	var under net.Conn = &wsSkipConn{Conn: p.raw}
	if p.HelloDelim != "" || p.HelloSplit > 0 {
		under = &helloConn{Conn: under, delim: p.HelloDelim, split: p.HelloSplit}
		if i := strings.Index(p.HelloDelim, "{"); i >= 0 {
			// (what travels in front of the hello is an envelope: it is part of what this peer said)
			var m map[string]interface{}
			if json.Unmarshal([]byte(strings.TrimSpace(p.HelloDelim[i:])), &m) == nil && m != nil {
				p.note("c-send", m, "", "in front of the TLS hello")
			}
		}
	}
	var tc *tls.Conn
	if server {
		tc = tls.Server(under, srvCfg)
	} else {
		tc = tls.Client(under, cliCfg)
	}
	tc.SetDeadline(time.Now().Add(40 * time.Second))
	err := tc.Handshake()
	tc.SetDeadline(time.Time{})
	if err != nil {
		p.note("tls", nil, "", "handshake failed: "+err.Error())
		// what follows on this connection may be TLS records, whose bytes are random: they are
		// counted, never interpreted (interpreting them would make the run depend on them)
		p.startDrain()
		return err
	}
	p.conn = tc
	p.TLS = true
	p.note("tls", nil, "", "upgraded")
	p.startReader()
	return nil
}

// wsSkipConn discards the JSON whitespace that precedes the first TLS record.
type wsSkipConn struct {
	net.Conn
	started bool
}

func (c *wsSkipConn) Read(b []byte) (int, error) {
	for {
		n, err := c.Conn.Read(b)
		if c.started {
			return n, err
		}
		i := 0
		for i < n && (b[i] == '\n' || b[i] == '\r' || b[i] == ' ' || b[i] == '\t') {
			i++
		}
		if i < n {
			c.started = true
			return copy(b, b[i:n]), err
		}
		if err != nil || len(b) == 0 {
			return 0, err
		}
	}
}

// startDrain reads the connection to its end without looking at the bytes.
func (p *RawPeer) startDrain() {
	done := NewFlag()
	p.reader = done
	p.pause = false
	conn := p.conn
	go func() {
		defer done.Set()
		buf := make([]byte, 4096)
		total := 0
		for {
			n, err := conn.Read(buf)
			total += n
			if err != nil {
				if !p.closed.IsSet() {
					p.note("s-close", nil, "", fmt.Sprintf("after %d uninterpreted bytes: %v", total, err))
					p.closed.Set()
				}
				return
			}
		}
	}()
}

// PauseReader stops the cleartext reader of a TCP peer between two envelopes (nothing may be in
// flight towards it), so that the next bytes - a TLS handshake - are left on the connection.
func (p *RawPeer) PauseReader() {
	if p.Kind != "tcp" || p.TLS || p.pause {
		return
	}
	p.pausing = true
	p.conn.SetReadDeadline(time.Now())
	p.reader.WaitFor(time.Minute)
	p.conn.SetReadDeadline(time.Time{})
	p.pausing = false
}

// ResumeCleartext resumes reading without upgrading (a peer that ignores the negotiated TLS).
func (p *RawPeer) ResumeCleartext() {
	p.reader.WaitFor(time.Minute)
	p.startReader()
}

// Close closes the scripted side of the connection.
func (p *RawPeer) Close() {
	p.note("c-close", nil, "", "")
	switch p.Kind {
	case "tcp":
		p.conn.Close()
		p.raw.Close()
	case "ws":
		p.ws.Close()
	default:
		// (closing must not depend on the other side: a transport whose Close waits for a sender
		// that is stuck leaves its owner waiting)
		if !p.w.Bounded("closing the in-process connection", 30*time.Second, func() { p.tr.Close() }) {
			p.CloseBlocked = true
		}
	}
}

// Reset aborts the connection (RST) - tcp and ws only.
func (p *RawPeer) Reset() {
	p.note("c-close", nil, "", "reset")
	if p.Link != nil {
		p.Link.Cut(simnet.CutRST)
	} else {
		p.Close()
	}
}
