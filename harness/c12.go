package harness

import (
	"context"
	"errors"
	"fmt"
	"strings"
	"time"

	lime "github.com/takenet/lime-go"
	"verifsim/simrt"
)

// PlanC12 is one TCP stream-preservation run.
type PlanC12 struct {
	TLS           bool      `json:"tls"`
	Reverse       bool      `json:"reverse"` // the accepted (server) end sends
	Envs          []EnvSpec `json:"envs"`
	Faults        FaultSpec `json:"faults"`               // on the data direction
	Back          FaultSpec `json:"back"`                 // on the opposite direction (matters under TLS)
	ReaderPauseMs int       `json:"reader_pause_ms"`      // receiver starts this late
	SendCtxMs     int       `json:"send_ctx_ms"`          // per-send context deadline, 0 = none
	RecvCtxMs     int       `json:"recv_ctx_ms"`          // per-receive context deadline, 0 = none
	RecvRetry     int       `json:"recv_retry"`           // how often the receiver calls Receive again after a receive context expired
	SendRetry     int       `json:"send_retry"`           // how often the sender goes on with the next envelope after a Send whose context ended
	Trace         bool      `json:"trace"`                // both transports are configured with a TraceWriter
	ReadLimit     int       `json:"read_limit,omitempty"` // configured on both transports (0 = default 8 MiB); every envelope of the run is smaller than it
	SendGapMs     int       `json:"send_gap_ms"`          // pause between sends
	Family        string    `json:"family"`
	// CloseAtOnce: the sender closes its transport right behind its last successful Send instead of
	// waiting for the receiver: the end of the stream (FIN, under TLS the close_notify alert) then
	// travels merged with the last envelopes, which are still owed to the receiver
	CloseAtOnce bool `json:"close_at_once,omitempty"`
	// ReceiverTalks: after its first envelope the receiving end sends a few envelopes of its own
	// the other way (towards a sender that may already have closed: those sends may fail); a fault
	// on its outgoing direction says nothing about what is still waiting for it on the incoming one
	ReceiverTalks bool `json:"receiver_talks,omitempty"`
	// TailStallMs > 0 (TLS, sender closing at once, otherwise fault-free): delivery pauses for that
	// long TailBack bytes before the end of everything the sender writes, i.e. inside its closing
	// TLS alert record or between its last envelope and that record (the byte count is taken from
	// a fault-free rehearsal of the same transfer)
	TailStallMs int `json:"tail_stall_ms,omitempty"`
	TailBack    int `json:"tail_back,omitempty"`
}

// c12Rehearse runs the transfer once without faults and returns how many bytes the sending
// end wrote in all (handshake, envelopes, closing alert).
func c12Rehearse(w *World, p *PlanC12, envs []*Env, cliCfg, srvCfg *lime.TCPConfig) int64 {
	pair, err := TCPPair(w, 7001, cliCfg, srvCfg, [2]FaultSpec{NoFaults(), NoFaults()})
	if err != nil {
		return -1
	}
	defer pair.Listener.Close()
	if err := pair.UpgradeTLS(time.Minute); err != nil {
		return -1
	}
	sender, receiver, dir := pair.Client, pair.Server, pair.Link.AB
	if p.Reverse {
		sender, receiver, dir = pair.Server, pair.Client, pair.Link.BA
	}
	done := NewFlag()
	go func() {
		defer done.Set()
		for range envs {
			ctx, cancel := context.WithTimeout(context.Background(), time.Minute)
			_, err := receiver.Receive(ctx)
			cancel()
			if err != nil {
				return
			}
		}
	}()
	for _, e := range envs {
		ctx, cancel := context.WithTimeout(context.Background(), time.Minute)
		err := SendEnv(ctx, sender, e)
		cancel()
		if err != nil {
			return -1
		}
	}
	sender.Close()
	done.WaitFor(2 * time.Minute)
	receiver.Close()
	written, _, _ := dir.Counters()
	return written
}

func genC12(t *simrt.Tape, tier string) interface{} {
	p := &PlanC12{Family: "random"}
	p.TLS = t.Draw(3) == 0
	p.Reverse = t.Draw(3) == 0
	n := 1 + t.Draw(8)
	if t.Draw(6) == 0 {
		n = 1 + t.Draw(20)
	}
	maxSize := []int{64, 600, 5000, 40000}[t.Draw(4)]
	total := 0
	for i := 0; i < n; i++ {
		s := GenEnvSpec(t, maxSize)
		p.Envs = append(p.Envs, s)
		total += s.Size + 120
	}
	if p.TLS {
		total += 3000
	}
	benign := t.Draw(2) == 0
	p.Faults = GenFaults(t, total, benign)
	if p.TLS && t.Draw(2) == 0 {
		p.Back = GenFaults(t, 3000, true)
	} else {
		p.Back = NoFaults()
	}
	if t.Draw(3) == 0 {
		p.ReaderPauseMs = []int{1, 400, 4900, 5100, 11000, 31000}[t.Draw(6)]
	}
	if !benign && t.Draw(3) == 0 {
		p.SendCtxMs = []int{50, 2000, 7000, 20000}[t.Draw(4)]
	}
	if !benign && t.Draw(4) == 0 {
		p.RecvCtxMs = []int{50, 2000, 7000, 20000}[t.Draw(4)]
	}
	if t.Draw(5) == 0 {
		// a receiver that polls: short receive contexts, Receive called again after each expiry
		p.RecvCtxMs = []int{1, 50, 700, 2000}[t.Draw(4)]
		p.RecvRetry = 1 + t.Draw(12)
	}
	if t.Draw(4) == 0 {
		p.SendGapMs = []int{1, 100, 5200}[t.Draw(3)]
	}
	if t.Draw(6) == 0 {
		// a sender that gives up on one envelope when its context ends and goes on with the next
		p.SendCtxMs = []int{1, 50, 700, 2000, 6000}[t.Draw(5)]
		p.SendRetry = 1 + t.Draw(6)
		if p.Faults.Capacity == 0 {
			p.Faults.Capacity = []int{1, 16, 64, 200}[t.Draw(4)]
		}
		if p.ReaderPauseMs == 0 {
			p.ReaderPauseMs = []int{400, 4900, 5100, 11000}[t.Draw(4)]
		}
	}
	p.Trace = t.Draw(6) == 0
	p.CloseAtOnce = t.Draw(3) == 0
	p.ReceiverTalks = p.CloseAtOnce && t.Draw(2) == 0
	if t.Draw(8) == 0 {
		// template: TLS, a handful of small envelopes, the sender closes at once, and the very end of
		// its stream is held back for longer than the receiver's read poll
		p.TLS, p.CloseAtOnce, p.ReceiverTalks = true, true, false
		p.Faults, p.Back = NoFaults(), NoFaults()
		p.ReaderPauseMs, p.SendCtxMs, p.RecvCtxMs, p.SendGapMs, p.ReadLimit = 0, 0, 0, 0, 0
		if len(p.Envs) > 4 {
			p.Envs = p.Envs[:4]
		}
		p.TailStallMs = []int{5200, 7000, 12000}[t.Draw(3)]
		p.TailBack = 1 + t.Draw(40)
	}
	if t.Draw(4) == 0 {
		// a small read limit that no single envelope reaches, but the stream as a whole exceeds many times
		big := 0
		for _, e := range p.Envs {
			if e.Size > big {
				big = e.Size
			}
		}
		p.ReadLimit = 2*big + 1200
		for len(p.Envs) < 12 {
			p.Envs = append(p.Envs, GenEnvSpec(t, big+1))
		}
	}
	// keep the link's throughput within what a run's simulated-time budget can carry
	for _, f := range []*FaultSpec{&p.Faults, &p.Back} {
		if f.Capacity > 0 && f.Capacity < 64 && total/f.Capacity > 400 {
			f.LatencyMs = nil
		}
	}
	return p
}

// ---- systematic sweeps over small streams ----

type sweepItem struct {
	fam  string
	a, b int
	kind int
}

var sweepCache = map[string][]*PlanC12{}

func c12SweepStream() []EnvSpec {
	return []EnvSpec{{Kind: KMessage, Seed: 11, Size: 20}, {Kind: KRequest, Seed: 5, Size: 12}, {Kind: KNotification, Seed: 3, Size: 0}}
}

// c12RetryStream is a two-envelope stream whose first envelope is a message with an
// envelope-shaped JSON document as content (found by searching the generator's seeds).
func c12RetryStream() []EnvSpec {
	for seed := uint32(1); seed < 5000; seed++ {
		s := EnvSpec{Kind: KMessage, Seed: seed, Size: 12}
		e := BuildEnvelope(s, "e0")
		if d, ok := e.Msg.Content.(*lime.JsonDocument); ok && e.Msg.Type.IsJson() {
			if _, ok := (*d)["id"]; ok && len(*d) <= 4 && EncodedLen(e) < 260 {
				if _, ok := (*d)["method"]; ok {
					return []EnvSpec{s, {Kind: KNotification, Seed: 3, Size: 0}}
				}
			}
		}
	}
	panic("no envelope-shaped payload in the generator")
}

func c12Sweep(tier string) []*PlanC12 {
	if s, ok := sweepCache[tier]; ok {
		return s
	}
	specs := c12SweepStream()
	L := 0
	var lens []int
	for i, s := range specs {
		e := BuildEnvelope(s, fmt.Sprintf("e%d", i))
		lens = append(lens, EncodedLen(e))
		L += EncodedLen(e)
	}
	var out []*PlanC12
	base := func(fam string) *PlanC12 {
		return &PlanC12{Envs: specs, Faults: NoFaults(), Back: NoFaults(), Family: fam}
	}
	step := 1
	pairStep := 3
	if tier != "thorough" {
		step = 5
		pairStep = 23
	}
	// every single split point
	for k := 1; k < L; k += step {
		p := base("split1")
		p.Faults.FragMode = 1
		p.Faults.FragSizes = []int{k}
		out = append(out, p)
	}
	// pairs of split points
	for a := 1; a < L; a += pairStep {
		for b := 1; a+b < L; b += pairStep {
			p := base("split2")
			p.Faults.FragMode = 1
			p.Faults.FragSizes = []int{a, b}
			out = append(out, p)
		}
	}
	// every cut offset, FIN and RST
	for k := 0; k <= L; k += step {
		for kind := 1; kind <= 2; kind++ {
			p := base("cut")
			p.Faults.CutAfter = int64(k)
			p.Faults.CutKind = kind
			out = append(out, p)
		}
	}
	// every short-write length of the first envelope combined with a write timeout: the send
	// buffer takes n bytes and the reader only starts after the 5 s socket deadline has passed
	for n := 1; n < lens[0]; n += step {
		p := base("shortwrite")
		p.Envs = specs[:2]
		p.Faults.Capacity = n
		p.ReaderPauseMs = 5500
		out = append(out, p)
	}
	// every coalescing boundary: the reader is late, so everything written so far arrives in one read
	for n := 1; n <= len(specs); n++ {
		p := base("coalesce")
		p.Envs = specs[:n]
		p.ReaderPauseMs = 100
		out = append(out, p)
	}
	// stalls shorter and longer than the 5 s poll at a few offsets
	for k := 0; k < L; k += 7 * step {
		for _, ms := range []int{900, 4999, 5001, 15000} {
			p := base("stall")
			p.Faults.Stalls = []StallS{{AfterBytes: int64(k), ForMs: ms}}
			out = append(out, p)
		}
	}
	// a stall longer than the receive context at every offset of a stream whose first envelope
	// carries an envelope-shaped JSON payload; the receiver calls Receive again after the expiry
	rs := c12RetryStream()
	RL := 0
	for i, s := range rs {
		RL += EncodedLen(BuildEnvelope(s, fmt.Sprintf("e%d", i)))
	}
	for k := 1; k < RL; k++ {
		p := base("stall-retry")
		p.Envs = rs
		p.Faults.Stalls = []StallS{{AfterBytes: int64(k), ForMs: 3000}}
		p.RecvCtxMs = 1000
		p.RecvRetry = 6
		out = append(out, p)
	}
	if tier == "thorough" {
		// the same split and cut sweeps under TLS (offsets then count TLS bytes, including the handshake)
		for k := 1; k < 2600; k += 9 {
			p := base("tls-split1")
			p.TLS = true
			p.Faults.FragMode = 1
			p.Faults.FragSizes = []int{k}
			out = append(out, p)
			q := base("tls-cut")
			q.TLS = true
			q.Faults.CutAfter = int64(k)
			q.Faults.CutKind = 1 + k%2
			out = append(out, q)
		}
	}
	sweepCache[tier] = out
	return out
}

func runC12(w *World, pi interface{}) {
	p := pi.(*PlanC12)
	if len(p.Envs) == 0 {
		return
	}
	if len(p.Envs) > 40 {
		p.Envs = p.Envs[:40]
	}
	var envs []*Env
	for i, s := range p.Envs {
		envs = append(envs, BuildEnvelope(s, fmt.Sprintf("e%d", i)))
	}
	srvTLS, cliTLS := TLSConfigs()
	faults := [2]FaultSpec{p.Faults, p.Back}
	if p.Reverse {
		faults = [2]FaultSpec{p.Back, p.Faults}
	}
	cliCfg, srvCfg := &lime.TCPConfig{TLSConfig: cliTLS}, &lime.TCPConfig{TLSConfig: srvTLS}
	if p.Trace {
		cliCfg.TraceWriter, srvCfg.TraceWriter = newDiscardTrace(), newDiscardTrace()
	}
	if p.ReadLimit > 0 {
		maxLen := 0
		for _, e := range envs {
			if n := EncodedLen(e); n > maxLen {
				maxLen = n
			}
		}
		if p.ReadLimit < maxLen+64 {
			p.ReadLimit = maxLen + 64 // every envelope stays within the limit
		}
		cliCfg.ReadLimit, srvCfg.ReadLimit = int64(p.ReadLimit), int64(p.ReadLimit)
	}
	if p.TailStallMs > 0 && p.TLS && p.CloseAtOnce {
		if total := c12Rehearse(w, p, envs, cliCfg, srvCfg); total > int64(p.TailBack) {
			k := 0
			if p.Reverse {
				k = 1
			}
			faults[k].Stalls = append(faults[k].Stalls, StallS{AfterBytes: total - int64(p.TailBack), ForMs: p.TailStallMs})
			w.Count("tail-stall-placed")
		}
	}
	pair, err := TCPPair(w, 7000, cliCfg, srvCfg, faults)
	if err != nil {
		w.Violate("C12.setup", "pair", "cannot connect the transport pair: %v", err)
		return
	}
	defer pair.Listener.Close()
	if p.TLS {
		if err := pair.UpgradeTLS(10 * time.Minute); err != nil {
			// a failed operation that reports an error is within the property
			w.Count("tls-upgrade-failed")
			pair.Client.Close()
			pair.Server.Close()
			return
		}
		w.Count("tls-upgraded")
	}
	sender, receiver := pair.Client, pair.Server
	if p.Reverse {
		sender, receiver = pair.Server, pair.Client
	}
	w.Armed = true

	type sendRes struct {
		err     error
		retStep int // scheduler step at which Send returned
	}
	var sends []sendRes
	senderDone, recvDone := NewFlag(), NewFlag()
	var received []string
	var recvErr error

	go func() {
		defer senderDone.Set()
		sendRetries := 0
		for _, e := range envs {
			ctx, cancel := context.Background(), context.CancelFunc(func() {})
			if p.SendCtxMs > 0 {
				ctx, cancel = context.WithTimeout(ctx, time.Duration(p.SendCtxMs)*time.Millisecond)
			}
			err := SendEnv(ctx, sender, e)
			ended := ctx.Err() != nil
			cancel()
			sends = append(sends, sendRes{err, simrt.Step()})
			if err != nil && ended && sendRetries < p.SendRetry && sender.Connected() {
				// the failed operation reported its error; a caller may go on with the next
				// envelope, and whatever the receiver is handed must still be intact and in order
				sendRetries++
				w.Count("sent-again-after-context-ended")
				continue
			}
			if err != nil {
				w.Count("send-failed")
				break
			}
			if p.SendGapMs > 0 {
				time.Sleep(time.Duration(p.SendGapMs) * time.Millisecond)
			}
		}
		// let the receiver drain what was sent, then close so that it sees the end of the stream
		if len(sends) == len(envs) && sends[len(sends)-1].err == nil && !p.CloseAtOnce {
			if !recvDone.WaitFor(150 * time.Minute) {
				w.Count("receiver-slow")
			}
		}
		sender.Close()
	}()
	go func() {
		defer recvDone.Set()
		if p.ReaderPauseMs > 0 {
			time.Sleep(time.Duration(p.ReaderPauseMs) * time.Millisecond)
		}
		retries := 0
		for len(received) < len(envs) {
			ctx, cancel := context.WithTimeout(context.Background(), 150*time.Minute)
			if p.RecvCtxMs > 0 {
				cancel()
				ctx, cancel = context.WithTimeout(context.Background(), time.Duration(p.RecvCtxMs)*time.Millisecond)
			}
			env, err := receiver.Receive(ctx)
			expired := ctx.Err() != nil
			cancel()
			if err != nil && expired && errors.Is(err, context.DeadlineExceeded) && retries < p.RecvRetry && receiver.Connected() {
				// the failed operation reported its error; whatever a later Receive on the same
				// transport hands out must still be the next envelope that was sent
				retries++
				w.Count("recv-again-after-context-expiry")
				continue
			}
			if err != nil {
				recvErr = err
				w.Count("recv-failed")
				// a receiver that gives up closes its end, as any application would
				receiver.Close()
				return
			}
			_, _, canon := Describe(env)
			received = append(received, canon)
			if p.ReceiverTalks && len(received) == 1 {
				for k := 0; k < 3; k++ {
					txt := lime.TextDocument("back")
					m := &lime.Message{}
					m.SetContent(&txt).SetID(fmt.Sprintf("back.%d", k))
					bctx, bcancel := context.WithTimeout(context.Background(), 2*time.Second)
					if err := receiver.Send(bctx, m); err != nil {
						w.Count("receiver-send-failed")
					}
					bcancel()
					time.Sleep(time.Millisecond)
				}
			}
		}
	}()
	okS := senderDone.WaitFor(170 * time.Minute)
	okR := recvDone.WaitFor(170 * time.Minute)
	if !okS || !okR {
		// too slow a link for this run's time budget: no verdict (bounded blocking is C15's subject)
		w.Count("discarded-unfinished")
		w.Armed = false
		sender.Close()
		receiver.Close()
		return
	}
	nOK := 0
	for _, s := range sends {
		if s.err == nil {
			nOK++
		}
	}
	// The receiver is never handed a corrupted, duplicated, reordered or fabricated envelope:
	// what it receives is, in order, the envelopes whose Send was attempted; one whose Send
	// reported an error may be missing (or present), one whose Send returned nil may not be
	// skipped by a later one.
	pos := 0
	gotOK := 0
	for i, c := range received {
		j := -1
		for k := pos; k < len(sends) && k < len(envs); k++ {
			if envs[k].Canon == c {
				j = k
				break
			}
		}
		if j < 0 {
			what := "corrupted"
			for k := 0; k < pos; k++ {
				if envs[k].Canon == c {
					what = "duplicated-or-reordered"
				}
			}
			want := "(nothing more was sent)"
			if pos < len(envs) {
				want = short(envs[pos].Canon, 400)
			}
			if what == "corrupted" && pos >= len(sends) {
				w.Violate("C12.fabricated", "extra-envelope", "received %d envelopes, the %d-th is none of the %d whose Send was attempted: %s", len(received), i, len(sends), short(c, 300))
			} else {
				w.Violate("C12."+strings.SplitN(what, "-", 2)[0], "position-mismatch", "envelope #%d received is not the next envelope sent (%s)\n got: %s\nnext sent: %s", i, what, short(c, 400), want)
			}
			break
		}
		for k := pos; k < j; k++ {
			if sends[k].err == nil {
				w.Violate("C12.lost", "acked-send-skipped", "envelope #%d was received but envelope #%d, whose Send returned nil before it, was not", j, k)
			}
		}
		if sends[j].err == nil {
			gotOK++
		} else if !p.TLS {
			// The receiver yields the envelopes the sender reported as sent. One whose Send reported
			// an error may still have gone out whole (all but its delimiter fitted the window before
			// the deadline): that is an honest error. What must not happen is that bytes of a failed
			// Send reach the wire after that Send has returned, smuggled out by a later operation.
			dir := pair.Link.AB
			if p.Reverse {
				dir = pair.Link.BA
			}
			tap := string(dir.Tap())
			if k := strings.Index(tap, envs[j].Canon); k >= 0 {
				end := int64(k + len(envs[j].Canon) - 1)
				writes, _ := dir.IOLog()
				for _, io := range writes {
					if io.Off <= end && end < io.Off+int64(io.N) {
						if io.Step > sends[j].retStep {
							w.Violate("C12.received-although-send-failed", "written-later", "envelope #%d was received intact although its Send had returned an error (%v) at step %d; its last byte went onto the wire at step %d, during a later operation", j, sends[j].err, sends[j].retStep, io.Step)
						}
						break
					}
				}
			}
		}
		pos = j + 1
	}
	noCut := p.Faults.Benign() && p.Back.Benign()
	if noCut && p.RecvCtxMs == 0 && gotOK < nOK {
		w.Violate("C12.lost", "acked-send-not-received", "%d sends returned nil but only %d of them were received (%d envelopes in all; receive error: %v) although the link was never cut", nOK, gotOK, len(received), recvErr)
	}
	sender.Close()
	receiver.Close()
}

func init() {
	register(&PropDef{
		ID:       "C12",
		New:      func() interface{} { return &PlanC12{} },
		Gen:      genC12,
		SweepLen: func(tier string) int { return len(c12Sweep(tier)) },
		SweepPlan: func(tier string, i int) interface{} {
			p := *c12Sweep(tier)[i]
			return &p
		},
		Run:    runC12,
		MaxSim: 4 * time.Hour,
		Rule: "plans = (envelope stream from the rich generator, TLS on/off, direction, per-direction fault plan: fragmentation mode, latency list, send-buffer capacity, stalls, cut offset+kind, reader pause, send/receive context deadlines, a polling receiver that calls Receive again after a receive context expired, a sender that goes on with the next envelope after a Send whose context ended, transports with a TraceWriter, a small configured read limit that every envelope respects but the stream exceeds many times); " +
			"systematic families (every split point, pairs of split points, every cut offset x FIN/RST, every short-write length with a write timeout, every coalescing boundary, stalls around the 5 s poll, a stall longer than the receive context at every offset of a stream with an envelope-shaped JSON payload followed by Receive again) are enumerated first, then random plans; " +
			"the sender may close right behind its last successful Send (the end of the stream, under TLS the close_notify alert, merged with the last envelopes); an envelope whose Send reported an error is never received intact; " +
			"a run is non-trivial when both real transports connected (and upgraded to TLS when asked) and at least one Send was attempted; distinct = distinct (plan JSON, event-log hash) pairs",
	})
}
