package harness

import (
	"context"
	"encoding/json"
	"fmt"
	mrand "math/rand/v2"
	"reflect"
	"sort"
	"strings"
	"time"

	"github.com/gorilla/websocket"
	lime "github.com/takenet/lime-go"
	"verifsim/simnet"
	"verifsim/simrt"
)

// Mut is one structural mutation of a JSON tree.
type Mut struct {
	Op   int    `json:"op"`   // 0 delete key, 1 null, 2 wrong type, 3 alien field, 4 swap with another subtree, 5 empty container, 6 duplicate key into sibling
	Seed uint32 `json:"seed"` // picks the node
}

// Hostile is one hostile frame: a valid encoding plus mutations.
type Hostile struct {
	Env      EnvSpec `json:"env"`
	Session  int     `json:"session"` // >0: use session template Session-1 instead of Env
	Muts     []Mut   `json:"muts"`
	Byte     int     `json:"byte"` // 0 none, 1 truncate, 2 bit flip, 3 glue to the next frame (no newline), 4 insert bytes
	ByteSeed uint32  `json:"byte_seed"`
}

// PlanC02 feeds hostile bytes to real endpoints.
type PlanC02 struct {
	Mode   string    `json:"mode"` // xport-tcp, xport-ws, srv-session, cli-session
	Frames []Hostile `json:"frames"`
	Faults FaultSpec `json:"faults"`
	Trans  string    `json:"trans"` // listener kind for the session modes: tcp, ws
	// transport modes: the receiver polls with receive contexts of RecvCtxMs (0 = 30 s) and calls
	// Receive again after an expiry; the writer pauses GapMs after each frame
	RecvCtxMs int  `json:"recv_ctx_ms,omitempty"`
	GapMs     int  `json:"gap_ms,omitempty"`
	Trace     bool `json:"trace,omitempty"` // TCP transport configured with a TraceWriter
}

var sessionTemplates = []string{
	`{"state":"new"}`,
	`{"id":"s1","from":"srv@x.org/i","state":"negotiating","compressionOptions":["none","gzip"],"encryptionOptions":["none","tls"]}`,
	`{"id":"s1","state":"negotiating","compression":"none","encryption":"tls"}`,
	`{"id":"s1","from":"srv@x.org/i","state":"authenticating","schemeOptions":["guest","plain","transport","key","external"]}`,
	`{"id":"s1","from":"a@b.org/c","state":"authenticating","scheme":"plain","authentication":{"password":"cGFzcw=="}}`,
	`{"id":"s1","from":"a@b.org/c","state":"authenticating","scheme":"external","authentication":{"token":"dG9r","issuer":"x.org"}}`,
	`{"id":"s1","from":"a@b.org/c","state":"authenticating","scheme":"guest","authentication":{}}`,
	`{"id":"s1","from":"srv@x.org/i","to":"a@b.org/c","state":"established"}`,
	`{"id":"s1","state":"finishing"}`,
	`{"id":"s1","from":"srv@x.org/i","to":"a@b.org/c","state":"failed","reason":{"code":13,"description":"d"}}`,
	`{"id":"s1","from":"srv@x.org/i","to":"a@b.org/c","state":"finished","metadata":{"k":"v"}}`,
}

func genC02(t *simrt.Tape, tier string) interface{} {
	p := &PlanC02{Faults: NoFaults()}
	p.Mode = []string{"xport-tcp", "xport-tcp", "xport-ws", "srv-session", "cli-session"}[t.Draw(5)]
	p.Trans = []string{"tcp", "ws"}[t.Draw(2)]
	n := 1 + t.Draw(8)
	if t.Draw(6) == 0 {
		n = 1 + t.Draw(40)
	}
	for i := 0; i < n; i++ {
		h := Hostile{Env: GenEnvSpec(t, []int{30, 300, 3000}[t.Draw(3)])}
		if t.Draw(5) == 0 {
			h.Session = 1 + t.Draw(len(sessionTemplates))
		}
		switch t.Draw(6) {
		case 0: // valid
		case 1, 2, 3:
			h.Muts = append(h.Muts, Mut{Op: t.Draw(8), Seed: uint32(t.Draw(1 << 16))})
		case 4:
			h.Muts = append(h.Muts, Mut{Op: t.Draw(8), Seed: uint32(t.Draw(1 << 16))}, Mut{Op: t.Draw(8), Seed: uint32(t.Draw(1 << 16))})
		default:
			h.Byte = 1 + t.Draw(4)
			h.ByteSeed = uint32(t.Draw(1 << 16))
		}
		p.Frames = append(p.Frames, h)
	}
	if t.Draw(5) == 0 {
		p.RecvCtxMs = []int{1, 20, 300, 2000}[t.Draw(4)]
		p.GapMs = []int{0, 5, 100, 900, 3000}[t.Draw(5)]
	}
	p.Trace = t.Draw(6) == 0
	if t.Draw(2) == 0 {
		p.Faults = GenFaults(t, 800, true)
		p.Faults.Capacity = 0
		p.Faults.Stalls = nil
		p.Faults.LatencyMs = nil
	}
	return p
}

// ---- mutation engine ----

type nodeRef struct {
	parent interface{} // map[string]interface{} or []interface{}
	key    string
	idx    int
	depth  int
}

func collectNodes(v interface{}, depth int, out *[]nodeRef) {
	switch x := v.(type) {
	case map[string]interface{}:
		keys := make([]string, 0, len(x))
		for k := range x {
			keys = append(keys, k)
		}
		sort.Strings(keys)
		for _, k := range keys {
			*out = append(*out, nodeRef{parent: x, key: k, depth: depth})
			collectNodes(x[k], depth+1, out)
		}
	case []interface{}:
		for i := range x {
			*out = append(*out, nodeRef{parent: x, idx: i, depth: depth})
			collectNodes(x[i], depth+1, out)
		}
	}
}

func (n nodeRef) get() interface{} {
	if m, ok := n.parent.(map[string]interface{}); ok {
		return m[n.key]
	}
	return n.parent.([]interface{})[n.idx]
}

func (n nodeRef) set(v interface{}) {
	if m, ok := n.parent.(map[string]interface{}); ok {
		m[n.key] = v
		return
	}
	n.parent.([]interface{})[n.idx] = v
}

func applyMut(tree map[string]interface{}, m Mut) {
	r := mrand.New(mrand.NewPCG(uint64(m.Seed), 77))
	var nodes []nodeRef
	collectNodes(tree, 0, &nodes)
	if len(nodes) == 0 {
		return
	}
	n := nodes[r.IntN(len(nodes))]
	switch m.Op % 8 {
	case 7:
		// the spelling of a string value (identifiers with their own syntax live in strings: media
		// types, node addresses, URIs): a separator inserted, doubled, moved, dropped, or swapped
		var strs []nodeRef
		for _, c := range nodes {
			if _, ok := c.get().(string); ok {
				strs = append(strs, c)
			}
		}
		if len(strs) == 0 {
			return
		}
		c := strs[r.IntN(len(strs))]
		v := c.get().(string)
		seps := []string{"+", "/", "@", ":", "%", "?", "#", ".", " ", "\\", "\u0000"}
		sep := seps[r.IntN(len(seps))]
		switch r.IntN(5) {
		case 0:
			i := r.IntN(len(v) + 1)
			v = v[:i] + sep + v[i:]
		case 1:
			v = sep + v
		case 2:
			v = v + sep
		case 3:
			// swap the first two different separators of the value
			i, j := strings.IndexAny(v, "+/@:"), -1
			if i >= 0 {
				j = strings.IndexAny(v[i+1:], "+/@:")
			}
			if i >= 0 && j >= 0 {
				j += i + 1
				b := []byte(v)
				b[i], b[j] = b[j], b[i]
				v = string(b)
			} else {
				v = sep + v + sep
			}
		default:
			v = strings.NewReplacer("/", "", "@", "", "+", "").Replace(v)
		}
		c.set(v)
	case 0:
		if mp, ok := n.parent.(map[string]interface{}); ok {
			delete(mp, n.key)
		} else {
			n.set(nil)
		}
	case 1:
		n.set(nil)
	case 2:
		switch n.get().(type) {
		case string:
			n.set([]interface{}{float64(1), map[string]interface{}{}, float64(42)}[r.IntN(3)])
		case float64:
			n.set("12")
		case bool:
			n.set("true")
		case map[string]interface{}:
			n.set([]interface{}{"str", []interface{}{}, float64(0)}[r.IntN(3)])
		case []interface{}:
			n.set([]interface{}{"str", map[string]interface{}{}, true}[r.IntN(3)])
		default:
			n.set(map[string]interface{}{"x": nil})
		}
	case 3:
		if mp, ok := n.get().(map[string]interface{}); ok {
			mp["alien"+fmt.Sprint(r.IntN(9))] = []interface{}{nil, "v", float64(1), map[string]interface{}{"deep": []interface{}{nil}}}[r.IntN(4)]
		} else {
			tree["alien"] = n.get()
		}
	case 4:
		o := nodes[r.IntN(len(nodes))]
		a, b := n.get(), o.get()
		n.set(b)
		o.set(a)
	case 5:
		switch n.get().(type) {
		case map[string]interface{}:
			n.set(map[string]interface{}{})
		case []interface{}:
			n.set([]interface{}{})
		default:
			n.set("")
		}
	default:
		if mp, ok := n.parent.(map[string]interface{}); ok {
			// copy this value under the name of a well-known field
			mp[[]string{"type", "value", "items", "itemType", "content", "resource", "state", "method", "event", "uri", "status", "scheme", "authentication", "reason", "id", "from", "to", "pp", "metadata"}[r.IntN(19)]] = n.get()
		}
	}
}

func hostileBytes(h Hostile, id string) []byte {
	var base string
	if h.Session > 0 {
		base = sessionTemplates[(h.Session-1)%len(sessionTemplates)]
	} else {
		base = BuildEnvelope(h.Env, id).Canon
	}
	if len(h.Muts) > 0 {
		var tree map[string]interface{}
		if err := json.Unmarshal([]byte(base), &tree); err == nil && tree != nil {
			for _, m := range h.Muts {
				applyMut(tree, m)
			}
			if b, err := json.Marshal(tree); err == nil {
				base = string(b)
			}
		}
	}
	b := []byte(base)
	r := mrand.New(mrand.NewPCG(uint64(h.ByteSeed), 99))
	switch h.Byte {
	case 1:
		if len(b) > 1 {
			b = b[:1+r.IntN(len(b)-1)]
		}
	case 2:
		if len(b) > 0 {
			i := r.IntN(len(b))
			b[i] ^= 1 << uint(r.IntN(8))
		}
	case 4:
		if len(b) > 0 {
			i := r.IntN(len(b))
			ins := []string{"\"", "\\", "{", "}", "[", "]", ",", ":", "null", "\x00", "\xff\xfe", "1e999", "-", "\\u00"}[r.IntN(14)]
			b = append(b[:i], append([]byte(ins), b[i:]...)...)
		}
	}
	return b
}

// semTree turns a value into a plain tree in which representations that mean the same are the
// same: an empty map or slice is an absent one, a pointer is what it points to.
func semTree(v reflect.Value) interface{} {
	if !v.IsValid() {
		return nil
	}
	switch v.Kind() {
	case reflect.Ptr, reflect.Interface:
		if v.IsNil() {
			return nil
		}
		return semTree(v.Elem())
	case reflect.Struct:
		if v.Type() == reflect.TypeOf(lime.URI{}) {
			// (a URI is its text: url.URL keeps how it was spelt, which escaping normalises)
			u := v.Interface().(lime.URI)
			return "uri:" + u.String()
		}
		m := map[string]interface{}{}
		for i := 0; i < v.NumField(); i++ {
			if t := semTree(v.Field(i)); t != nil {
				m[v.Type().Field(i).Name] = t
			}
		}
		if len(m) == 0 {
			return nil
		}
		return m
	case reflect.Map:
		if v.Len() == 0 {
			return nil
		}
		// (sorted: the harness is instrumented too, the order of its own steps is part of the event log)
		m := map[string]interface{}{}
		keys := v.MapKeys()
		names := make([]string, len(keys))
		byName := map[string]reflect.Value{}
		for i, k := range keys {
			names[i] = fmt.Sprint(k.Interface())
			byName[names[i]] = k
		}
		sortStrings(names)
		for _, n := range names {
			m[n] = semTree(v.MapIndex(byName[n]))
		}
		return m
	case reflect.Slice, reflect.Array:
		if v.Len() == 0 {
			return nil
		}
		if v.Type().Elem().Kind() == reflect.Uint8 {
			return fmt.Sprintf("%x", v.Bytes())
		}
		l := make([]interface{}, v.Len())
		for i := range l {
			l[i] = semTree(v.Index(i))
		}
		return l
	case reflect.String:
		if v.Len() == 0 {
			return nil
		}
		return v.String()
	case reflect.Bool:
		if !v.Bool() {
			return nil
		}
		return true
	case reflect.Int, reflect.Int8, reflect.Int16, reflect.Int32, reflect.Int64:
		return v.Int()
	case reflect.Uint, reflect.Uint8, reflect.Uint16, reflect.Uint32, reflect.Uint64:
		return v.Uint()
	case reflect.Float32, reflect.Float64:
		return v.Float()
	default:
		return fmt.Sprintf("%v", v)
	}
}

// reencodeStable checks the second half of C02 on an accepted envelope.
func reencodeStable(w *World, where string, env interface{}) {
	kind, _, _ := Describe(env)
	b1, err := json.Marshal(env)
	if err != nil {
		w.Violate("C02.accepted-not-encodable", fmt.Sprintf("%s kind=%d", where, kind), "an envelope accepted by %s cannot be encoded again: %v (%#v)", where, err, env)
		return
	}
	var e2 interface{}
	switch kind {
	case KMessage:
		e2 = &lime.Message{}
	case KNotification:
		e2 = &lime.Notification{}
	case KRequest:
		e2 = &lime.RequestCommand{}
	case KResponse:
		e2 = &lime.ResponseCommand{}
	case 4:
		e2 = &lime.Session{}
	default:
		return
	}
	if err := json.Unmarshal(b1, e2); err != nil {
		w.Violate("C02.reencoded-not-decodable", fmt.Sprintf("%s kind=%d", where, kind), "an envelope accepted by %s was re-encoded to %s, which does not decode: %v", where, short(string(b1), 300), err)
		return
	}
	// ... and what that encoding decodes to is the envelope that was accepted
	if !reflect.DeepEqual(semTree(reflect.ValueOf(env)), semTree(reflect.ValueOf(e2))) {
		w.Violate("C02.reencoded-not-equal", fmt.Sprintf("%s kind=%d", where, kind), "an envelope accepted by %s differs from what its own encoding decodes to\naccepted: %#v\nencoding: %s\n decoded: %#v", where, env, short(string(b1), 300), e2)
		return
	}
	b2, err := json.Marshal(e2)
	if err != nil || string(b2) != string(b1) {
		w.Violate("C02.reencoding-unstable", fmt.Sprintf("%s kind=%d", where, kind), "accepted -> encoded %s -> decoded -> encoded %s (err %v)", short(string(b1), 300), short(string(b2), 300), err)
	}
}

func runC02(w *World, pi interface{}) {
	p := pi.(*PlanC02)
	if len(p.Frames) > 60 {
		p.Frames = p.Frames[:60]
	}
	var stream [][]byte
	for i, h := range p.Frames {
		b := hostileBytes(h, fmt.Sprintf("h%d", i))
		if len(b) > 8000 {
			b = b[:8000]
		}
		if h.Byte != 3 {
			b = append(b, '\n')
		}
		stream = append(stream, b)
	}
	switch p.Mode {
	case "xport-tcp":
		tcfg := &lime.TCPConfig{ReadLimit: 1 << 20}
		if p.Trace {
			tcfg.TraceWriter = newDiscardTrace()
		}
		l := lime.NewTCPTransportListener(tcfg)
		if err := l.Listen(context.Background(), tcpAddr(7700)); err != nil {
			return
		}
		defer l.Close()
		w.Net.OnLink = func(lk *simnet.Link) { p.Faults.Apply(w, lk.AB) }
		raw, err := w.Net.Dial(context.Background(), tcpAddr(7700).String())
		if err != nil {
			return
		}
		ctx, cancel := context.WithTimeout(context.Background(), time.Minute)
		tr, err := l.Accept(ctx)
		cancel()
		if err != nil {
			return
		}
		w.Armed = true
		go func() {
			for _, b := range stream {
				if _, err := raw.Write(b); err != nil {
					return
				}
				if p.GapMs > 0 {
					time.Sleep(time.Duration(p.GapMs) * time.Millisecond)
				}
			}
			time.Sleep(time.Second)
			raw.Close()
		}()
		again := 0
		rtmo := 30 * time.Second
		polls := 0
		if p.RecvCtxMs > 0 {
			rtmo = time.Duration(p.RecvCtxMs) * time.Millisecond
		}
		for i := 0; i < 2*len(stream)+4; i++ {
			rctx, rcancel := context.WithTimeout(context.Background(), rtmo)
			env, err := tr.Receive(rctx)
			expired := rctx.Err() != nil
			rcancel()
			if err == nil && isNilEnvelope(env) {
				w.Violate("C02.neither-envelope-nor-error", "the TCP transport", "Receive #%d on the TCP transport returned neither an envelope nor an error (after %d expired receive contexts and %d rejected envelopes)", i, polls, again)
				break
			}
			if err != nil && expired && p.RecvCtxMs > 0 && polls < 40 && tr.Connected() {
				// a polling receiver: the context ran out, Receive is called again
				polls++
				i--
				w.Count("receive-context-expired")
				continue
			}
			if err != nil {
				w.Count("rejected")
				// an envelope that is well-formed JSON but no valid envelope is rejected on its own:
				// the transport stays connected and a caller may go on receiving after it
				if !tr.Connected() || expired {
					break
				}
				if again++; again > len(stream)+2 {
					break
				}
				w.Count("received-again-after-rejection")
				continue
			}
			w.Count("accepted")
			reencodeStable(w, "the TCP transport", env)
		}
		tr.Close()
	case "xport-ws":
		l := lime.NewWebsocketTransportListener(nil)
		if err := l.Listen(context.Background(), tcpAddr(7701)); err != nil {
			return
		}
		defer l.Close()
		w.Net.OnLink = func(lk *simnet.Link) { p.Faults.Apply(w, lk.AB) }
		d := websocket.Dialer{NetDialContext: simnet.DialContext, Subprotocols: []string{"lime"}, EnableCompression: swarm.WSCompress}
		dctx, dcancel := context.WithTimeout(context.Background(), time.Minute)
		ws, _, err := d.DialContext(dctx, "ws://127.0.0.1:7701", nil)
		if err != nil {
			dcancel()
			return
		}
		tr, err := l.Accept(dctx)
		dcancel()
		if err != nil {
			return
		}
		w.Armed = true
		go func() {
			for _, b := range stream {
				ws.SetWriteDeadline(time.Now().Add(time.Minute))
				if err := ws.WriteMessage(websocket.TextMessage, b); err != nil {
					return
				}
			}
			time.Sleep(time.Second)
			ws.Close()
		}()
		for i := 0; i < len(stream)+2; i++ {
			rctx, rcancel := context.WithTimeout(context.Background(), 30*time.Second)
			env, err := tr.Receive(rctx)
			expired := rctx.Err() != nil
			rcancel()
			if err == nil && isNilEnvelope(env) {
				w.Violate("C02.neither-envelope-nor-error", "the websocket transport", "Receive #%d on the websocket transport returned neither an envelope nor an error", i)
				break
			}
			if err != nil {
				w.Count("rejected")
				if !tr.Connected() {
					break
				}
				// the websocket transport rejects one frame and may go on with the next
				if expired {
					break
				}
				w.Count("received-again-after-rejection")
				continue
			}
			w.Count("accepted")
			reencodeStable(w, "the websocket transport", env)
		}
		tr.Close()
	case "srv-session":
		// an established session on a real Server, then hostile frames on the wire
		h := &History{}
		// (AutoReplyPings in every other plan: its handler predicate looks into each request command)
		conf := SrvConf{Transport: p.Trans, Comp: []string{"none"}, Enc: []string{"none"}, Schemes: []string{"guest"}, Full: true, Buf: 2, AutoPing: len(p.Frames)%2 == 0}
		sut, err := StartSUT(w, h, conf, 7710)
		if err != nil {
			return
		}
		sut.Handler = func(ctx context.Context, kind string, env interface{}, s lime.Sender) error {
			w.Count("handler-ran")
			reencodeStable(w, "a server session", env)
			return nil
		}
		w.Net.OnLink = func(lk *simnet.Link) { p.Faults.Apply(w, lk.AB) }
		peer, err := sut.Dial(0)
		if err != nil {
			sut.Shutdown()
			return
		}
		ScriptRun(w, peer, []Step{{Op: "auto"}, {Op: "auto", Choice: 1}}) // the builder offers [transport guest]
		if fstr(peer.LastSessionFrame(), "state") != "established" {
			w.Count("not-established-srv")
			w.Tracef("server session not established: %s", h.Dump(20))
			peer.Close()
			sut.Shutdown()
			return
		}
		w.Armed = true
		for _, b := range stream {
			if peer.RemoteClosed().IsSet() {
				break
			}
			peer.SendBytes(b, "hostile")
		}
		time.Sleep(2 * time.Second)
		// the process must still serve: a fresh, well-behaved client establishes
		w.Net.OnLink = nil
		p2, err := sut.Dial(1)
		if err == nil {
			ScriptRun(w, p2, []Step{{Op: "auto"}, {Op: "auto", Choice: 1, From: 1}})
			if fstr(p2.LastSessionFrame(), "state") != "established" && !hasPanic() {
				w.Violate("C02.server-unusable-after-hostile-input", "transport="+p.Trans, "after hostile frames on one session a fresh client could not establish a session: last frame %s\n%s", canonJSON(p2.LastSessionFrame()), h.Dump(30))
			}
			p2.Close()
		}
		if !peer.RemoteClosed().IsSet() {
			peer.Close()
		}
		sut.Shutdown()
	default: // cli-session
		// a real ClientChannel, established against a scripted server, then fed hostile frames
		h := &History{}
		rl, err := w.Net.Listen(tcpAddr(7720).String())
		if err != nil {
			return
		}
		defer rl.Close()
		w.Net.OnLink = func(lk *simnet.Link) { p.Faults.Apply(w, lk.BA) }
		tr, err := lime.DialTcp(context.Background(), tcpAddr(7720), &lime.TCPConfig{ReadLimit: 1 << 20})
		if err != nil {
			return
		}
		rc, err := rl.Accept()
		if err != nil {
			return
		}
		peer := NewRawTCPFromConn(w, h, 0, rc.(*simnet.Conn))
		go func() {
			n := 0
			var dummy int
			for i := 0; i < 2; i++ {
				if !peer.AwaitFrame(n, time.Minute) {
					return
				}
				n = peer.NFrames()
				peer.SendJSON(serverFrame(SStep{Op: "auto"}, "s1", peer.LastFrame(), &dummy))
			}
		}()
		ch := lime.NewClientChannel(tr, 2)
		ectx, ecancel := context.WithTimeout(context.Background(), time.Minute)
		_, err = ch.EstablishSession(ectx, compSelector, lime.NoneEncryptionSelector, lime.Identity{Name: "a", Domain: "b.org"}, authenticatorFor("guest"), "i")
		ecancel()
		if err != nil || !ch.Established() {
			w.Count("not-established-cli")
			w.Tracef("client session not established: %v\n%s", err, h.Dump(20))
			ch.Close()
			return
		}
		w.Armed = true
		// consumers
		go func() {
			for m := range ch.MsgChan() {
				reencodeStable(w, "a client session", m)
			}
		}()
		go func() {
			for n := range ch.NotChan() {
				reencodeStable(w, "a client session", n)
			}
		}()
		go func() {
			for c := range ch.ReqCmdChan() {
				reencodeStable(w, "a client session", c)
			}
		}()
		go func() {
			for c := range ch.RespCmdChan() {
				reencodeStable(w, "a client session", c)
			}
		}()
		for _, b := range stream {
			if peer.RemoteClosed().IsSet() {
				break
			}
			peer.SendBytes(b, "hostile")
		}
		time.Sleep(2 * time.Second)
		ch.Close()
		if !peer.RemoteClosed().IsSet() {
			peer.Close()
		}
	}
}

func hasPanic() bool { return false }

func isNilEnvelope(env interface{}) bool {
	if env == nil {
		return true
	}
	rv := reflect.ValueOf(env)
	return rv.Kind() == reflect.Ptr && rv.IsNil()
}

func init() {
	register(&PropDef{
		ID:        "C02",
		New:       func() interface{} { return &PlanC02{} },
		Gen:       genC02,
		Run:       runC02,
		MaxSim:    2 * time.Hour,
		PanicRule: "C02.panic",
		Rule: "plans = (1-40 hostile frames = valid encodings from the rich generator or session templates with 0-2 structural mutations at any nesting level {delete, null, wrong JSON type, alien field, swapped sub-trees, emptied container, value copied under a well-known field name} " +
			"(whatever is accepted is encoded, decoded again and compared structurally with the accepted envelope) " +
			"mutations of the spelling of string values (separators + / @ : % inserted, doubled, swapped, dropped); " +
			"or a byte-level fault {truncation, bit flip, frames glued together, inserted bytes}; delivered under random fragmentation to {real TCP transport, real websocket transport, an established session of a real Server, an established real ClientChannel}); " +
			"hostile bytes are a peer/link fault whose effect (the decoder runs on an unrecovered receiver goroutine) is process-wide; non-trivial = the real endpoint was reached; distinct = distinct (plan JSON, event-log hash). " +
			"Coverage-guided byte-level fuzzing of the typed decoders is a pure-input technique and is not what this check adds",
	})
}
