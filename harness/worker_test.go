package harness

import "testing"

func TestWorker(t *testing.T) { WorkerMain(t) }
