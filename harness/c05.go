package harness

import (
	"context"
	"errors"
	"fmt"
	"strings"
	"time"

	lime "github.com/takenet/lime-go"
	"verifsim/simnet"
	"verifsim/simrt"
)

// CallSpec is one ProcessCommand call.
type CallSpec struct {
	ID    int `json:"id"`     // index into a pool of 3 command ids (forces reuse and collisions)
	CtxMs int `json:"ctx_ms"` // context deadline
	GapMs int `json:"gap_ms"` // pause before the call
}

// RespRule says what the scripted responder does with the k-th request it sees.
type RespRule struct {
	Mode    int `json:"mode"` // 0 answer now, 1 answer late, 2 never, 3 answer twice, 4 hold and answer after the next request (reorder), 5 answer with another id, 6 answer and end the session right behind the answer (finished envelope, then close)
	DelayMs int `json:"delay_ms"`
}

// Unsol is an unsolicited response.
type Unsol struct {
	AtMs int `json:"at_ms"`
	ID   int `json:"id"` // pool index, 3 = an id nobody uses
}

// PlanC05 is one command-matching run.
type PlanC05 struct {
	Callers [][]CallSpec `json:"callers"`
	Rules   []RespRule   `json:"rules"`
	Unsol   []Unsol      `json:"unsol"`
	Buf     int          `json:"buf"`
	Drain   bool         `json:"drain"` // a consumer drains the response stream
	Faults  FaultSpec    `json:"faults"`
	// InProc runs the session over the in-process transport with a queue of IPBuf envelopes; the
	// scripted server stops reading from StallAtMs for StallMs, so that requests cannot even be sent.
	InProc    bool `json:"inproc,omitempty"`
	IPBuf     int  `json:"ip_buf,omitempty"`
	StallAtMs int  `json:"stall_at_ms,omitempty"`
	StallMs   int  `json:"stall_ms,omitempty"`
}

var idPool = []string{"cmd-a", "cmd-b", "cmd-c", "cmd-unused"}

func genC05(t *simrt.Tape, tier string) interface{} {
	p := &PlanC05{Faults: NoFaults()}
	for i := 1 + t.Draw(6); i > 0; i-- {
		var calls []CallSpec
		for j := 1 + t.Draw(6); j > 0; j-- {
			calls = append(calls, CallSpec{ID: t.Draw(3), CtxMs: []int{5, 100, 1000, 8000, 30000}[t.Draw(5)], GapMs: []int{0, 0, 1, 50, 900}[t.Draw(5)]})
		}
		p.Callers = append(p.Callers, calls)
	}
	for i := 1 + t.Draw(6); i > 0; i-- {
		p.Rules = append(p.Rules, RespRule{Mode: []int{0, 0, 0, 1, 1, 2, 3, 3, 4, 5}[t.Draw(10)], DelayMs: []int{1, 5, 20, 100, 400, 1000, 2500, 8000, 12000}[t.Draw(9)]})
	}
	if t.Draw(6) == 0 {
		// the responder answers one of the requests and ends the session right behind its answer
		p.Rules[t.Draw(len(p.Rules))].Mode = 6
	}
	for i := t.Draw(4); i > 0; i-- {
		p.Unsol = append(p.Unsol, Unsol{AtMs: t.Draw(3000), ID: t.Draw(4)})
	}
	p.Buf = []int{0, 1, 2, 8}[t.Draw(4)]
	p.Drain = t.Draw(4) != 0
	if t.Draw(5) == 0 {
		p.InProc = true
		p.IPBuf = t.Draw(3)
		if t.Draw(3) != 0 {
			p.StallAtMs = []int{0, 1, 40, 500}[t.Draw(4)]
			p.StallMs = []int{20, 300, 2000, 9000}[t.Draw(4)]
			if t.Draw(2) == 0 {
				// responses bearing the ids in use arrive while their requests are still stuck in the send
				for id := 0; id < 3; id++ {
					p.Unsol = append(p.Unsol, Unsol{AtMs: p.StallAtMs + 1 + t.Draw(p.StallMs), ID: id})
				}
			}
		}
	}
	if t.Draw(3) == 0 {
		p.Faults = benignFaults(t, 1500)
		p.Faults.Capacity = 0
	}
	return p
}

type callRec struct {
	tag        string
	id         string
	invokeStep int
	invokeAt   time.Duration
	retStep    int
	retAt      time.Duration
	deadlineAt time.Duration
	respTag    string
	respID     string
	errClass   string // "", ctx, in-use, other
	errText    string
	done       bool
}

type respRec struct {
	tag      string
	id       string
	forCall  string
	sentStep int
	sentAt   time.Duration
}

func runC05(w *World, pi interface{}) {
	p := pi.(*PlanC05)
	if len(p.Callers) == 0 {
		return
	}
	if len(p.Callers) > 6 {
		p.Callers = p.Callers[:6]
	}
	if len(p.Rules) == 0 {
		p.Rules = []RespRule{{}}
	}
	h := &History{}
	var tr lime.Transport
	var peer *RawPeer
	if p.InProc {
		addr := lime.InProcessAddr(fmt.Sprintf("c05-%d", ProcUniq()))
		il := lime.NewInProcessTransportListener(addr)
		if err := il.Listen(context.Background(), addr); err != nil {
			return
		}
		defer il.Close()
		var err error
		tr, err = lime.DialInProcess(addr, p.IPBuf)
		if err != nil {
			return
		}
		actx, acancel := context.WithTimeout(context.Background(), time.Minute)
		st, err := il.Accept(actx)
		acancel()
		if err != nil {
			return
		}
		peer = NewRawInProcFromTransport(w, h, 0, st)
	} else {
		rl, err := w.Net.Listen(tcpAddr(7900).String())
		if err != nil {
			return
		}
		defer rl.Close()
		w.Net.OnLink = func(lk *simnet.Link) { p.Faults.Apply(w, lk.BA) }
		tr, err = lime.DialTcp(context.Background(), tcpAddr(7900), &lime.TCPConfig{})
		if err != nil {
			return
		}
		rc, err := rl.Accept()
		if err != nil {
			return
		}
		peer = NewRawTCPFromConn(w, h, 0, rc.(*simnet.Conn))
	}
	// scripted handshake
	hsDone := NewFlag()
	go func() {
		n := 0
		var dummy int
		for i := 0; i < 2; i++ {
			if !peer.AwaitFrame(n, time.Minute) {
				return
			}
			n = peer.NFrames()
			peer.SendJSON(serverFrame(SStep{Op: "auto"}, "s1", peer.LastFrame(), &dummy))
		}
		hsDone.Set()
	}()
	ch := lime.NewClientChannel(tr, p.Buf)
	ectx, ecancel := context.WithTimeout(context.Background(), time.Minute)
	_, err := ch.EstablishSession(ectx, compSelector, lime.NoneEncryptionSelector, lime.Identity{Name: "a", Domain: "b.org"}, authenticatorFor("guest"), "i")
	ecancel()
	if err != nil || !ch.Established() {
		w.Count("not-established")
		return
	}
	hsDone.WaitFor(time.Minute)
	w.Armed = true
	if p.InProc && p.StallMs > 0 {
		t0 := simrt.Now()
		from, to := t0+time.Duration(p.StallAtMs)*time.Millisecond, t0+time.Duration(p.StallAtMs+p.StallMs)*time.Millisecond
		peer.ReadGate = func() {
			if now := simrt.Now(); now >= from && now < to {
				w.Count("server-stopped-reading")
				time.Sleep(to - now)
			}
		}
	}

	var resps []respRec
	nTag := 0
	sendResp := func(id, forCall string) {
		nTag++
		tag := fmt.Sprintf("r%d", nTag)
		resps = append(resps, respRec{tag: tag, id: id, forCall: forCall, sentStep: simrt.Step(), sentAt: simrt.Now()})
		peer.SendJSON(map[string]interface{}{"id": id, "method": "get", "status": "success", "metadata": map[string]interface{}{"tag": tag, "for": forCall}})
	}
	sessionEnded := false // the responder ended the session itself (mode 6)
	// the responder
	respDone := NewFlag()
	stop := NewFlag()
	go func() {
		defer respDone.Set()
		seen := peer.NFrames()
		k := 0
		type held struct{ id, call string }
		var hold []held
		for !stop.IsSet() {
			if !peer.AwaitFrame(seen, 500*time.Millisecond) {
				if peer.RemoteClosed().IsSet() {
					return
				}
				continue
			}
			frames := peer.h.Of(0, "s-frame")
			for ; seen < len(frames) && seen < peer.NFrames(); seen++ {
				fr := frames[seen].Frame
				if fr["uri"] == nil {
					continue
				}
				id := fstr(fr, "id")
				call := ""
				if md, ok := fr["metadata"].(map[string]interface{}); ok {
					call, _ = md["call"].(string)
				}
				rule := p.Rules[k%len(p.Rules)]
				k++
				// release anything held for reordering
				for _, hd := range hold {
					sendResp(hd.id, hd.call)
				}
				hold = nil
				switch rule.Mode {
				case 0:
					sendResp(id, call)
				case 1:
					id, call, d := id, call, rule.DelayMs
					go func() {
						time.Sleep(time.Duration(d) * time.Millisecond)
						if !stop.IsSet() {
							sendResp(id, call)
						}
					}()
				case 2:
				case 3:
					sendResp(id, call)
					sendResp(id, call)
				case 4:
					hold = append(hold, held{id, call})
				case 5:
					sendResp(idPool[3], call)
				case 6:
					sendResp(id, call)
					peer.SendJSON(map[string]interface{}{"state": "finished", "id": fstr(peer.LastSessionFrame(), "id"), "from": nodeVariants[0]})
					sessionEnded = true
					peer.Close()
					return
				}
			}
			seen = peer.NFrames()
		}
	}()
	for _, u := range p.Unsol {
		u := u
		go func() {
			time.Sleep(time.Duration(u.AtMs) * time.Millisecond)
			if !stop.IsSet() {
				sendResp(idPool[u.ID%4], "")
			}
		}()
	}
	// the response stream consumer
	var stream []string // tags delivered on RespCmdChan
	if p.Drain {
		go func() {
			for r := range ch.RespCmdChan() {
				stream = append(stream, r.Metadata["tag"])
			}
		}()
	}
	// the callers
	var calls []*callRec
	var cdone []*Flag
	for ci, specs := range p.Callers {
		ci, specs := ci, specs
		fl := NewFlag()
		cdone = append(cdone, fl)
		go func() {
			defer fl.Set()
			for j, cs := range specs {
				if cs.GapMs > 0 {
					time.Sleep(time.Duration(cs.GapMs) * time.Millisecond)
				}
				if cs.CtxMs < 1 {
					cs.CtxMs = 1
				}
				rec := &callRec{tag: fmt.Sprintf("c%d.%d", ci, j), id: idPool[cs.ID%3]}
				cmd := &lime.RequestCommand{}
				cmd.ID = rec.id
				cmd.Method = lime.CommandMethodGet
				cmd.SetURIString("/x")
				cmd.Metadata = map[string]string{"call": rec.tag}
				ctx, cancel := context.WithTimeout(context.Background(), time.Duration(cs.CtxMs)*time.Millisecond)
				rec.invokeStep, rec.invokeAt = simrt.Step(), simrt.Now()
				rec.deadlineAt = rec.invokeAt + time.Duration(cs.CtxMs)*time.Millisecond
				calls = append(calls, rec)
				resp, err := ch.ProcessCommand(ctx, cmd)
				rec.retStep, rec.retAt = simrt.Step(), simrt.Now()
				cancel()
				rec.done = true
				switch {
				case err == nil && resp != nil:
					rec.respTag, rec.respID = resp.Metadata["tag"], resp.ID
				case err != nil && (errors.Is(err, context.DeadlineExceeded) || errors.Is(err, context.Canceled)):
					rec.errClass = "ctx"
				case err != nil && strings.Contains(err.Error(), "already in use"):
					rec.errClass = "in-use"
				default:
					rec.errClass = "other"
				}
				if err != nil {
					rec.errText = err.Error()
				}
			}
		}()
	}
	for _, fl := range cdone {
		fl.WaitFor(30 * time.Minute)
	}
	// let late responses arrive and be routed; a last response nobody asked for probes that the
	// receiver is still routing at all (it must come out on the response stream)
	time.Sleep(5 * time.Second)
	if !peer.RemoteClosed().IsSet() && !sessionEnded {
		sendResp(idPool[3], "")
	}
	time.Sleep(10 * time.Second)
	stop.Set()
	respDone.WaitFor(10 * time.Second)
	time.Sleep(2 * time.Second)

	sig := func(what string) string { return what }
	dump := func() string {
		var sb strings.Builder
		for _, c := range calls {
			fmt.Fprintf(&sb, "call %s id=%s invoke=%d@%v ret=%d@%v deadline=%v -> resp=%s err=%s %s\n", c.tag, c.id, c.invokeStep, c.invokeAt, c.retStep, c.retAt, c.deadlineAt, c.respTag, c.errClass, short(c.errText, 80))
		}
		for _, r := range resps {
			fmt.Fprintf(&sb, "resp %s id=%s for=%s sent=%d@%v\n", r.tag, r.id, r.forCall, r.sentStep, r.sentAt)
		}
		fmt.Fprintf(&sb, "stream: %v\n", stream)
		return sb.String()
	}
	respByTag := map[string]respRec{}
	for _, r := range resps {
		respByTag[r.tag] = r
	}
	overlaps := func(a, b *callRec) bool {
		return a != b && a.id == b.id && a.invokeStep <= b.retStep && b.invokeStep <= a.retStep
	}
	consumed := map[string]int{}
	for _, c := range calls {
		if !c.done {
			w.Violate("C05.call-did-not-return", sig("hang"), "ProcessCommand %s did not return\n%s", c.tag, dump())
			continue
		}
		switch {
		case c.respTag != "":
			consumed[c.respTag]++
			r, ok := respByTag[c.respTag]
			if c.respID != c.id {
				w.Violate("C05.response-with-other-id", sig("id"), "call %s (id %s) completed with a response whose id is %s\n%s", c.tag, c.id, c.respID, dump())
			} else if !ok || r.id != c.id {
				w.Violate("C05.response-with-other-id", sig("tag"), "call %s (id %s) completed with response %s that was sent for id %s\n%s", c.tag, c.id, c.respTag, r.id, dump())
			}
		case c.errClass == "ctx":
			if c.retAt < c.deadlineAt {
				w.Violate("C05.context-error-before-context-end", sig("ctx"), "call %s returned its context's error at %v, before the context ended at %v\n%s", c.tag, c.retAt, c.deadlineAt, dump())
			}
		case c.errClass == "in-use":
			any := false
			for _, o := range calls {
				if overlaps(c, o) {
					any = true
				}
			}
			if !any {
				w.Violate("C05.id-in-use-without-pending-call", sig("in-use"), "call %s (id %s) was rejected as 'id in use' although no other call with that id was pending at that time\n%s", c.tag, c.id, dump())
			}
		default:
			if ch.Established() && !strings.Contains(c.errText, "transport") {
				w.Count("call-other-error")
			}
			// neither its response nor its context's error, although its own response had been sent
			// to it before it returned (the session may have ended right behind that response)
			if p.Faults.Benign() {
				for _, r := range resps {
					if r.forCall == c.tag && r.id == c.id && r.sentStep < c.retStep {
						w.Violate("C05.response-lost-to-another-error", sig("other"), "call %s (id %s) returned %q at step %d although its own response %s had been sent at step %d, and its context had not ended\n%s", c.tag, c.id, c.errText, c.retStep, r.tag, r.sentStep, dump())
						break
					}
				}
			}
		}
	}
	// A request that reuses an identifier still pending is rejected: two accepted calls with one
	// id are never pending at the same moment. A call is pending at least from the moment its
	// request is seen on the wire (it registers before it writes) until the response it returned
	// was sent, or until its context ended when it returned the context's error.
	type span struct {
		c        *callRec
		fromStep int
		fromAt   time.Duration
	}
	var spans []span
	for _, e := range h.Of(0, "s-frame") {
		if e.Frame["uri"] == nil {
			continue
		}
		md, _ := e.Frame["metadata"].(map[string]interface{})
		tag, _ := md["call"].(string)
		for _, c := range calls {
			if c.tag == tag && c.done && (c.respTag != "" || c.errClass == "ctx") {
				spans = append(spans, span{c, e.Step, time.Duration(e.AtMs) * time.Millisecond})
			}
		}
	}
	pendingAt := func(sp span, step int, at time.Duration) bool {
		if sp.c.respTag != "" {
			r, ok := respByTag[sp.c.respTag]
			return ok && r.sentStep > step
		}
		return at+time.Millisecond < sp.c.deadlineAt // AtMs is truncated to the millisecond
	}
	for i, a := range spans {
		for _, b := range spans[i+1:] {
			if a.c == b.c || a.c.id != b.c.id {
				continue
			}
			step, at := a.fromStep, a.fromAt
			if b.fromStep > step {
				step, at = b.fromStep, b.fromAt
			}
			if pendingAt(a, step, at) && pendingAt(b, step, at) {
				w.Violate("C05.reused-pending-id-accepted", sig("both-pending"), "calls %s and %s use id %s and were both accepted and pending at step %d: the one that registered second reused an identifier still pending\n%s", a.c.tag, b.c.tag, a.c.id, step, dump())
			}
		}
	}
	for _, tg := range stream {
		consumed[tg]++
	}
	for tg, n := range consumed {
		_ = tg
		if n > 1 {
			w.Violate("C05.response-consumed-twice", sig("dup"), "a response was handed out %d times\n%s", n, dump())
			break
		}
	}
	// a response that matched no pending request must be on the stream
	if p.Drain && ch.Established() {
		for _, r := range resps {
			if consumed[r.tag] > 0 {
				continue
			}
			// may only be unaccounted for if a same-id call that was pending when or after it was sent lost the race with its own context
			excused := false
			for _, c := range calls {
				if c.id == r.id && c.retStep >= r.sentStep && c.errClass == "ctx" {
					excused = true
				}
			}
			if !excused {
				w.Violate("C05.response-lost", sig("lost"), "response %s (id %s) reached neither a caller nor the response stream, and no same-id call gave up on its context after it was sent\n%s", r.tag, r.id, dump())
				break
			}
		}
	}
	// bounded liveness: the answer sent in good time for a call with no competing same-id call is returned by it
	// (only when the response stream is being consumed: an unconsumed stream legitimately stalls the receiver)
	if p.Faults.Benign() && ch.Established() && p.Drain {
		for _, c := range calls {
			if c.errClass != "ctx" {
				continue
			}
			competing := false
			for _, o := range calls {
				if overlaps(c, o) {
					competing = true
				}
			}
			if competing {
				continue
			}
			for _, r := range resps {
				lat := time.Duration(0)
				for _, l := range p.Faults.LatencyMs {
					if d := time.Duration(l) * time.Millisecond; d > lat {
						lat = d
					}
				}
				for _, st := range p.Faults.Stalls {
					lat += time.Duration(st.ForMs) * time.Millisecond
				}
				if r.forCall == c.tag && r.id == c.id && r.sentAt+lat+time.Second < c.deadlineAt {
					// no other response with this id may have been around to take its place
					others := 0
					for _, o := range resps {
						if o.id == c.id && o.tag != r.tag && o.sentStep >= c.invokeStep && o.sentStep <= c.retStep {
							others++
						}
					}
					if others == 0 {
						w.Violate("C05.response-not-delivered-to-caller", sig("liveness"), "call %s (id %s) ended with its context's error at %v although its response %s was sent at %v, with no competing call or response\n%s", c.tag, c.id, c.retAt, r.tag, r.sentAt, dump())
					}
				}
			}
		}
	}
	w.Bounded("ClientChannel.Close at the end of the run", 2*time.Minute, func() { ch.Close() })
	if !peer.RemoteClosed().IsSet() {
		peer.Close()
	}
}

func init() {
	register(&PropDef{
		ID:     "C05",
		New:    func() interface{} { return &PlanC05{} },
		Gen:    genC05,
		Run:    runC05,
		MaxSim: 3 * time.Hour,
		Rule: "plans = (1-6 concurrent caller tasks x 1-6 ProcessCommand calls with ids from a pool of 3 and context deadlines 5 ms..30 s; a scripted responder that per request answers now / late / never / twice / after the next request / with another id; unsolicited responses incl. unknown ids; " +
			"channel buffer sizes incl. 0; response stream drained or not; benign link faults; in a fifth of the runs the in-process transport with a queue of 0-2 envelopes and a server that stops reading for a while, so that requests cannot be sent before their context ends); every request carries its call tag and every response a unique tag, invocations and returns are stamped with the scheduler's step number; " +
			"oracle: interval reasoning over the history (own id only, context error only after the context ended, in-use only with an overlapping same-id call, no two accepted same-id calls pending at one moment (wire sight .. own response sent / context end), each response consumed at most once, unmatched responses on the stream, timely answers returned); " +
			"a responder that may answer and end the session right behind its answer; a call ends with its own response or its context's error, never with another error once its response had been sent; non-trivial = session established; distinct = distinct (plan JSON, event-log hash)",
	})
}
