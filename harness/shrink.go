//verif:noinstrument  (runs outside simulations)

package harness

import (
	"encoding/json"
	"fmt"
	"testing"
	"time"

	"verifsim/simrt"
)

// minimise shrinks a failing (plan, tape) while the same rule keeps firing, and returns the
// replay file of the smallest reproduction found within the budget.
func minimise(t *testing.T, def *PropDef, tier string, seed uint64, run int, plan []byte, tape []uint32, v Violation) ReplayFile {
	budget := envInt("VERIF_SHRINK_RUNS", 250)
	deadline := time.Now().Add(time.Duration(envInt("VERIF_SHRINK_S", 25)) * time.Second)
	tries := 0
	best := RunOut{}
	bestPlan, bestTape := plan, append([]uint32(nil), tape...)
	bestV := v

	attempt := func(p []byte, tp []uint32) bool {
		if tries >= budget || time.Now().After(deadline) {
			return false
		}
		tries++
		pl, err := decodePlan(def, p)
		if err != nil {
			return false
		}
		ro := runPlan(t, def, pl, simrt.NewReplayTape(append([]uint32(nil), tp...)), tier, false)
		if hv := hasRule(ro.Violations, v.Rule); hv != nil {
			bestPlan, bestTape, best, bestV = p, tp, ro, *hv
			return true
		}
		return false
	}

	shrinkTape := func() {
		// all-default schedule first
		if len(bestTape) > 0 && attempt(bestPlan, nil) {
			return
		}
		// truncate
		for n := len(bestTape) / 2; n >= 1 && len(bestTape) > 1; n /= 2 {
			for len(bestTape) > n && attempt(bestPlan, bestTape[:len(bestTape)-n]) {
			}
		}
		// zero blocks
		for bs := len(bestTape) / 2; bs >= 1; bs /= 2 {
			for off := 0; off+bs <= len(bestTape); off += bs {
				allZero := true
				for _, x := range bestTape[off : off+bs] {
					if x != 0 {
						allZero = false
					}
				}
				if allZero {
					continue
				}
				cand := append([]uint32(nil), bestTape...)
				for i := off; i < off+bs; i++ {
					cand[i] = 0
				}
				attempt(bestPlan, cand)
				if tries >= budget {
					return
				}
			}
			if bs == 1 {
				break
			}
		}
	}

	shrinkPlan := func() bool {
		progress := false
		for {
			var tree interface{}
			if err := json.Unmarshal(bestPlan, &tree); err != nil {
				return progress
			}
			cands := planCandidates(tree)
			adopted := false
			for _, c := range cands {
				if tries >= budget || time.Now().After(deadline) {
					return progress
				}
				if string(c) == string(bestPlan) {
					continue
				}
				if attempt(c, bestTape) {
					adopted = true
					progress = true
					break
				}
			}
			if !adopted {
				return progress
			}
		}
	}

	shrinkTape()
	if shrinkPlan() {
		shrinkTape()
	}
	// final confirming run with the full log
	pl, _ := decodePlan(def, bestPlan)
	final := runPlan(t, def, pl, simrt.NewReplayTape(append([]uint32(nil), bestTape...)), tier, true)
	if hv := hasRule(final.Violations, v.Rule); hv != nil {
		best, bestV = final, *hv
	} else {
		// fall back to the original, unshrunk reproduction
		pl, _ := decodePlan(def, plan)
		bestPlan, bestTape = plan, tape
		best = runPlan(t, def, pl, simrt.NewReplayTape(append([]uint32(nil), tape...)), tier, true)
		if hv := hasRule(best.Violations, v.Rule); hv != nil {
			bestV = *hv
		}
	}
	return ReplayFile{
		Property: def.ID, Tier: tier, Seed: seed, Run: run, Plan: bestPlan, Tape: bestTape,
		Rule: bestV.Rule, Sig: bestV.Sig, Detail: bestV.Detail, EventHash: best.Res.EventHash,
		Events: firstN(best.Res.Events, 40), Trace: best.Trace,
		Shrunk: fmt.Sprintf("%d candidate runs; plan %d -> %d bytes; tape %d -> %d draws", tries, len(plan), len(bestPlan), len(tape), len(bestTape)),
	}
}

// planCandidates returns simpler variants of a decoded JSON plan: array elements removed,
// numbers lowered, booleans cleared.
func planCandidates(tree interface{}) [][]byte {
	var out [][]byte
	emit := func() {
		b, err := json.Marshal(tree)
		if err == nil {
			out = append(out, b)
		}
	}
	var walk func(node interface{}, set func(interface{}))
	walk = func(node interface{}, set func(interface{})) {
		switch x := node.(type) {
		case []interface{}:
			// drop halves, then single elements
			if len(x) >= 4 {
				set(append([]interface{}{}, x[:len(x)/2]...))
				emit()
				set(append([]interface{}{}, x[len(x)/2:]...))
				emit()
				set(x)
			}
			for i := len(x) - 1; i >= 0; i-- {
				cand := append(append([]interface{}{}, x[:i]...), x[i+1:]...)
				set(cand)
				emit()
				set(x)
			}
			for i := range x {
				i := i
				walk(x[i], func(v interface{}) { x[i] = v })
			}
		case map[string]interface{}:
			keys := make([]string, 0, len(x))
			for k := range x {
				keys = append(keys, k)
			}
			sortStrings(keys)
			for _, k := range keys {
				k := k
				walk(x[k], func(v interface{}) { x[k] = v })
			}
		case float64:
			if x != 0 {
				set(float64(0))
				emit()
				if x > 1 || x < -1 {
					set(float64(int64(x / 2)))
					emit()
				}
				if x > 1 {
					set(x - 1)
					emit()
				}
				set(x)
			}
		case bool:
			if x {
				set(false)
				emit()
				set(x)
			}
		}
	}
	walk(tree, func(v interface{}) { tree = v })
	return out
}

func sortStrings(s []string) {
	for i := 1; i < len(s); i++ {
		for j := i; j > 0 && s[j] < s[j-1]; j-- {
			s[j], s[j-1] = s[j-1], s[j]
		}
	}
}
