package harness

import (
	"context"
	"crypto/tls"
	"fmt"
	"net"
	"strings"
	"time"

	lime "github.com/takenet/lime-go"
	"verifsim/simnet"
	"verifsim/simrt"
)

// PlanC16 is one read-limit run: a raw writer feeds a real TCP transport whose ReadLimit is
// Limit with valid envelopes of the listed encoded sizes.
type PlanC16 struct {
	Limit       int64     `json:"limit"`        // 0 = library default (8 MiB)
	Sizes       []int     `json:"sizes"`        // encoded size of each envelope in bytes (without the newline)
	ClientSide  bool      `json:"client_side"`  // the dialling transport is the receiver (limit from DialTcp's config)
	Faults      FaultSpec `json:"faults"`       // fragmentation etc. on the data direction
	WriteChunks []int     `json:"write_chunks"` // how the raw writer splits its writes (cycled), empty = one write per envelope
	PauseMs     int       `json:"pause_ms"`     // receiver starts late (coalescing)
	Glue        bool      `json:"glue"`         // write the whole stream with a single Write
	WriteGapMs  int       `json:"write_gap_ms"` // pause of the raw writer after each write
	RecvCtxMs   int       `json:"recv_ctx_ms"`  // per-receive context deadline, 0 = 10 min
	RecvRetry   int       `json:"recv_retry"`   // how often Receive is called again after a receive context expired
	Trace       bool      `json:"trace"`        // the transport is configured with a TraceWriter
	// CtxAtLast (slow writer only): each Receive gets a context whose deadline is the very instant
	// at which the chunk holding the envelope's last byte arrives
	CtxAtLast bool `json:"ctx_at_last,omitempty"`
	// TLS: the transport is upgraded to TLS (SetEncryption) before the stream starts; the writer
	// then speaks TLS too. Byte accounting on the link would count ciphertext and is not judged.
	TLS bool `json:"tls,omitempty"`
	// Invalid lists the positions of envelopes that are well-formed JSON objects of the given size
	// but no envelope at all: Receive reports an error for each and the stream goes on behind it
	Invalid []int `json:"invalid,omitempty"`
}

// exactInvalid returns a JSON object of exactly n bytes that is not an envelope.
func exactInvalid(id string, n int) string {
	head := `{"id":"` + id + `","pad":"`
	tail := `"}`
	pad := n - len(head) - len(tail)
	if pad < 0 {
		pad = 0
	}
	return head + strings.Repeat("b", pad) + tail
}

const minEnvLen = 40

// exactMessage returns the JSON of a valid message envelope whose encoding is exactly n bytes.
func exactMessage(id string, n int) string {
	head := `{"id":"` + id + `","type":"text/plain","content":"`
	tail := `"}`
	pad := n - len(head) - len(tail)
	if pad < 0 {
		pad = 0
	}
	return head + strings.Repeat("a", pad) + tail
}

func genC16(t *simrt.Tape, tier string) interface{} {
	p := &PlanC16{Faults: NoFaults()}
	limits := []int64{256, 1000, 4096, 65536}
	p.Limit = limits[t.Draw(len(limits))]
	if tier == "thorough" && t.Draw(400) == 0 {
		p.Limit = 0
	}
	L := int(p.Limit)
	if L == 0 {
		L = int(lime.DefaultReadLimit)
	}
	n := 1 + t.Draw(8)
	if t.Draw(5) == 0 {
		n = 1 + t.Draw(12)
	}
	if p.Limit == 0 {
		n = 1 + t.Draw(3)
	}
	pick := func() int {
		var s int
		switch t.Draw(12) {
		case 0, 1:
			s = minEnvLen + t.Draw(40)
		case 2:
			s = L / 2
		case 3, 4:
			s = L - 2 - t.Draw(3)
		case 5:
			s = L - 2 - t.Draw(L/4+1)
		case 6:
			s = L - 1 + t.Draw(3) // L-1, L, L+1
		case 7:
			s = L + t.Draw(L)
		case 8:
			s = 2*L - 1 + t.Draw(3)
		case 9:
			s = 2*L + 1 + t.Draw(L)
		case 10:
			s = 5*L/2 + t.Draw(L/2+1)
		default:
			s = 10 * L
			if p.Limit == 0 {
				s = 3 * L
			}
		}
		if s < minEnvLen {
			s = minEnvLen
		}
		return s
	}
	for i := 0; i < n; i++ {
		p.Sizes = append(p.Sizes, pick())
	}
	p.ClientSide = t.Draw(4) == 0
	total := 0
	for _, s := range p.Sizes {
		total += s
	}
	p.Faults = GenFaults(t, total, true)
	p.Faults.Stalls = nil
	p.Faults.Capacity = 0
	if len(p.Faults.LatencyMs) > 0 {
		p.Faults.LatencyMs = []int{p.Faults.LatencyMs[0] % 1000}
	}
	if p.Faults.FragMode == 2 && total > 20000 {
		p.Faults.FragMode = 3
		p.Faults.FragMax = 7
	}
	switch t.Draw(4) {
	case 0:
		p.Glue = true
	case 1:
		for i := 1 + t.Draw(3); i > 0; i-- {
			p.WriteChunks = append(p.WriteChunks, 1+t.Draw(2*L))
		}
	}
	if t.Draw(2) == 0 {
		p.PauseMs = 1 + t.Draw(2000)
	}
	p.Trace = t.Draw(4) == 0
	p.TLS = t.Draw(4) == 0
	if t.Draw(4) == 0 {
		for i := 1 + t.Draw(3); i > 0; i-- {
			p.Invalid = append(p.Invalid, t.Draw(len(p.Sizes)+1))
		}
	}
	if t.Draw(5) == 0 {
		// a slow writer against a polling receiver: the envelope trickles in over several
		// receive operations, each of which runs into its context deadline
		p.Glue = false
		p.WriteChunks = nil
		for i := 1 + t.Draw(3); i > 0; i-- {
			p.WriteChunks = append(p.WriteChunks, 1+t.Draw(L))
		}
		p.WriteGapMs = []int{10, 300, 1000}[t.Draw(3)]
		p.RecvCtxMs = []int{5, 200, 700, 2500}[t.Draw(4)]
		p.RecvRetry = 1 + t.Draw(40)
		if t.Draw(2) == 0 {
			p.CtxAtLast = true
			p.RecvCtxMs = 0
			p.PauseMs = 0
			p.Faults = NoFaults()
		}
	}
	return p
}

func runC16(w *World, pi interface{}) {
	p := pi.(*PlanC16)
	if len(p.Sizes) == 0 {
		return
	}
	if len(p.Sizes) > 16 {
		p.Sizes = p.Sizes[:16]
	}
	L := p.Limit
	if L == 0 {
		L = lime.DefaultReadLimit
	}
	if L < 64 {
		return
	}
	invalid := map[int]bool{}
	if !p.CtxAtLast && p.RecvCtxMs == 0 {
		// (not together with receive deadlines: an error returned at the very instant a deadline
		// passes would have two possible causes)
		for _, i := range p.Invalid {
			invalid[i] = true
		}
	}
	var frames []string
	for i, s := range p.Sizes {
		if s < minEnvLen {
			s = minEnvLen
		}
		if int64(s) > 12*L {
			s = int(12 * L)
		}
		if invalid[i] {
			frames = append(frames, exactInvalid(fmt.Sprintf("m%d", i), s))
		} else {
			frames = append(frames, exactMessage(fmt.Sprintf("m%d", i), s))
		}
	}
	cfg := &lime.TCPConfig{ReadLimit: p.Limit}
	if p.Trace {
		cfg.TraceWriter = newDiscardTrace()
	}
	srvTLS, cliTLS := TLSConfigs()
	if p.TLS {
		if p.ClientSide {
			cfg.TLSConfig = cliTLS
		} else {
			cfg.TLSConfig = srvTLS
		}
	}
	ctx, cancel := context.WithTimeout(context.Background(), time.Hour)
	defer cancel()
	var rx lime.Transport
	var raw *simnet.Conn
	var dataDir *simnet.Dir
	if !p.ClientSide {
		l := lime.NewTCPTransportListener(cfg)
		addr := tcpAddr(7100)
		if err := l.Listen(ctx, addr); err != nil {
			w.Violate("C16.setup", "listen", "%v", err)
			return
		}
		defer l.Close()
		w.Net.OnLink = func(lk *simnet.Link) { p.Faults.Apply(w, lk.AB) }
		c, err := w.Net.Dial(ctx, addr.String())
		if err != nil {
			w.Violate("C16.setup", "dial", "%v", err)
			return
		}
		raw = c
		dataDir = c.Link().AB
		rx, err = l.Accept(ctx)
		if err != nil {
			w.Violate("C16.setup", "accept", "%v", err)
			return
		}
	} else {
		rl, err := w.Net.Listen("127.0.0.1:7101")
		if err != nil {
			w.Violate("C16.setup", "listen", "%v", err)
			return
		}
		defer rl.Close()
		w.Net.OnLink = func(lk *simnet.Link) { p.Faults.Apply(w, lk.BA) }
		rx, err = lime.DialTcp(ctx, tcpAddr(7101), cfg)
		if err != nil {
			w.Violate("C16.setup", "dial", "%v", err)
			return
		}
		c, err := rl.Accept()
		if err != nil {
			w.Violate("C16.setup", "accept", "%v", err)
			return
		}
		raw = c.(*simnet.Conn)
		dataDir = raw.Link().BA
	}
	var wconn net.Conn = raw
	if p.TLS {
		// both ends switch to TLS before the stream starts
		hs := NewFlag()
		var herr error
		go func() {
			defer hs.Set()
			var tc *tls.Conn
			if p.ClientSide {
				tc = tls.Server(raw, srvTLS)
			} else {
				tc = tls.Client(raw, cliTLS)
			}
			tc.SetDeadline(time.Now().Add(time.Minute))
			herr = tc.Handshake()
			tc.SetDeadline(time.Time{})
			wconn = tc
		}()
		uctx, ucancel := context.WithTimeout(context.Background(), time.Minute)
		uerr := rx.SetEncryption(uctx, lime.SessionEncryptionTLS)
		ucancel()
		hs.WaitFor(2 * time.Minute)
		if uerr != nil || herr != nil {
			w.Count("tls-upgrade-failed")
			rx.Close()
			raw.Close()
			return
		}
		w.Count("tls-upgraded")
	}
	w.Armed = true
	// when the chunk holding the closing brace of each envelope reaches the receiver (slow writer)
	var lastAt []time.Duration
	if p.CtxAtLast && len(p.WriteChunks) > 0 && p.WriteGapMs > 0 && !p.Glue {
		t0 := simrt.Now()
		total := 0
		for _, f := range frames {
			total += len(f) + 1
		}
		var ends []int // stream offset one past each chunk
		off, i := 0, 0
		for off < total {
			k := p.WriteChunks[i%len(p.WriteChunks)]
			i++
			if k < 1 {
				k = 1
			}
			if off+k > total {
				k = total - off
			}
			off += k
			ends = append(ends, off)
		}
		brace := 0
		for _, f := range frames {
			brace += len(f) // offset one past the closing brace of this envelope
			for n, e := range ends {
				if e >= brace {
					lastAt = append(lastAt, t0+time.Duration(n*p.WriteGapMs)*time.Millisecond)
					break
				}
			}
			brace++ // the newline
		}
	}
	// raw writer
	go func() {
		stream := strings.Join(frames, "\n") + "\n"
		if p.Glue {
			wconn.Write([]byte(stream))
			return
		}
		if len(p.WriteChunks) > 0 {
			i := 0
			for len(stream) > 0 {
				k := p.WriteChunks[i%len(p.WriteChunks)]
				i++
				if k < 1 {
					k = 1
				}
				if k > len(stream) {
					k = len(stream)
				}
				if _, err := wconn.Write([]byte(stream[:k])); err != nil {
					return
				}
				stream = stream[k:]
				if p.WriteGapMs > 0 {
					time.Sleep(time.Duration(p.WriteGapMs) * time.Millisecond)
				}
			}
			return
		}
		for _, f := range frames {
			if _, err := wconn.Write([]byte(f + "\n")); err != nil {
				return
			}
		}
	}()
	if p.PauseMs > 0 {
		time.Sleep(time.Duration(p.PauseMs) * time.Millisecond)
	}
	sig := func(i int) string {
		return fmt.Sprintf("limit=%d size-class=%s", p.Limit, sizeClass(int64(len(frames[i])), L))
	}
	retries := 0
	for i := 0; i < len(frames); i++ {
		size := int64(len(frames[i]))
		_, _, before := dataDir.Counters()
		tmo := 10 * time.Minute
		if p.RecvCtxMs > 0 {
			tmo = time.Duration(p.RecvCtxMs) * time.Millisecond
		}
		if i < len(lastAt) {
			if d := lastAt[i] - simrt.Now(); d > 0 {
				tmo = d // the context ends the instant the envelope becomes complete
				w.Count("receive-deadline-at-last-chunk")
			}
		}
		rctx, rcancel := context.WithTimeout(context.Background(), tmo)
		env, err := rx.Receive(rctx)
		expired := rctx.Err() != nil
		rcancel()
		_, _, after := dataDir.Counters()
		consumed := after - before
		if consumed > L && !p.TLS {
			w.Violate("C16.receive-consumed-more-than-limit", sig(i), "Receive #%d consumed %d bytes from the connection with a read limit of %d (envelope sizes %v)", i, consumed, L, p.Sizes)
		}
		if err != nil && expired && (p.RecvCtxMs > 0 || len(lastAt) > 0) {
			// the receive context ran out, which says nothing about the envelope's size; the
			// caller may call Receive again on the same transport
			w.Count("receive-context-expired")
			if retries < p.RecvRetry && rx.Connected() {
				retries++
				i--
				continue
			}
			break
		}
		if invalid[i] && size <= L-2 {
			if err != nil && rx.Connected() {
				// reported, as it must be; what follows on the stream is still owed its own verdict
				w.Count("invalid-envelope-reported")
				continue
			}
			if err == nil {
				w.Count("invalid-envelope-accepted")
				continue
			}
		}
		if err != nil {
			w.Count("rejected")
			if size <= L-2 && retries == 0 {
				w.Violate("C16.within-limit-rejected", sig(i), "envelope #%d of %d bytes (limit %d) was rejected after %d valid envelopes: %v (sizes %v)", i, size, L, i, err, p.Sizes)
			}
			break
		}
		w.Count("accepted")
		if size > 2*L {
			w.Violate("C16.oversized-accepted", sig(i), "envelope #%d of %d bytes was accepted with a read limit of %d (more than twice the limit; sizes %v, %d receive operations ran into their context deadline before)", i, size, L, p.Sizes, retries)
		}
		m, ok := env.(*lime.Message)
		if !ok || m.ID != fmt.Sprintf("m%d", i) || canonJSON(m) != frames[i] {
			got := canonJSON(env)
			w.Violate("C16.corrupted", sig(i), "envelope #%d differs from what was written: got %s want %s", i, short(got, 200), short(frames[i], 200))
			break
		}
	}
	rx.Close()
	raw.Close()
}

func sizeClass(s, L int64) string {
	switch {
	case s <= L-2:
		return "within"
	case s <= 2*L:
		return "between"
	default:
		return "above-2x"
	}
}

func init() {
	register(&PropDef{
		ID:     "C16",
		New:    func() interface{} { return &PlanC16{} },
		Gen:    genC16,
		Run:    runC16,
		MaxSim: 3 * time.Hour,
		Rule: "plans = (read limit in {256,1000,4096,65536, default 8 MiB in the thorough tier}, 1-12 valid envelopes with exact encoded sizes drawn around the boundaries " +
			"tiny / limit/2 / limit-2.. / limit-1,limit,limit+1 / between / 2*limit-1..+1 / above 2*limit / 10*limit at every position, receiver = accepted or dialled transport, with or without a TraceWriter, plain or upgraded to TLS before the stream, " +
			"optionally well-formed JSON objects that are no envelopes at chosen positions (reported, and the stream goes on behind them), " +
			"fragmentation mode, write chunking or a single glued write, late reader for coalescing, a slow writer against a polling receiver that calls Receive again after each expired receive context, or against receive contexts that end the very instant the envelope becomes complete); non-trivial = the real transport connected and at least one Receive ran; distinct = distinct (plan JSON, event-log hash)",
	})
}
