package harness

import (
	"context"
	"fmt"
	"strings"
	"time"

	lime "github.com/takenet/lime-go"
	"verifsim/simnet"
	"verifsim/simrt"
)

// PlanC06 interleaves application sends with every stage of handshake and teardown.
type PlanC06 struct {
	Role      string    `json:"role"`        // server: real ServerChannel vs scripted client; client: real ClientChannel vs scripted server
	Conf      SrvConf   `json:"conf"`        // server role
	Script    []Step    `json:"script"`      // server role: the scripted client's handshake (may inject data envelopes)
	SScript   []SStep   `json:"sscript"`     // client role: the scripted server's answers
	Senders   int       `json:"senders"`     // application tasks that keep sending
	Attempts  int       `json:"attempts"`    // sends per task
	GapMs     []int     `json:"gap_ms"`      // pauses between attempts, cycled
	EndMode   int       `json:"end_mode"`    // 0 local finish/fail call, 1 peer-initiated end, 2 none
	EndAtMs   int       `json:"end_at_ms"`   // when the end is triggered
	StepGapMs int       `json:"step_gap_ms"` // pause between handshake steps of the scripted peer
	Faults    FaultSpec `json:"faults"`
	// InjectAtTLS (server role, tcp): the scripted client chooses TLS and puts a data envelope in
	// front of its TLS hello, in the same segment: the last place before establishment where a
	// non-session envelope can arrive in cleartext
	InjectAtTLS bool `json:"inject_at_tls,omitempty"`
}

func genC06(t *simrt.Tape, tier string) interface{} {
	p := &PlanC06{Faults: NoFaults()}
	p.Role = []string{"server", "client"}[t.Draw(2)]
	p.Conf = GenSrvConf(t)
	p.Conf.Full = false
	p.Conf.Transport = []string{"tcp", "tcp", "ws", "inproc"}[t.Draw(4)]
	p.Conf.AuthOut = [][]int{{0}, {2, 0}, {0}, {1}}[t.Draw(4)]
	p.Conf.RegOut = 0
	p.Conf.PostEstab = 0
	n := 3 + t.Draw(3)
	for i := 0; i < n; i++ {
		if t.Draw(6) == 0 {
			p.Script = append(p.Script, Step{Op: "data", Kind: t.Draw(4)})
		}
		p.Script = append(p.Script, Step{Op: "auto", Choice: t.Draw(4)})
	}
	for i := 0; i < 4; i++ {
		p.SScript = append(p.SScript, SStep{Op: "auto", To: 3})
	}
	if t.Draw(4) == 0 {
		p.SScript[t.Draw(4)] = genSStep(t)
	}
	p.Senders = 1 + t.Draw(3)
	p.Attempts = 3 + t.Draw(25)
	for i := 1 + t.Draw(3); i > 0; i-- {
		p.GapMs = append(p.GapMs, []int{0, 0, 1, 7, 40}[t.Draw(5)])
	}
	p.EndMode = t.Draw(3)
	if p.Role == "client" && t.Draw(4) == 0 {
		p.EndMode = 3 // the peer breaks off in the middle of an envelope
	}
	p.EndAtMs = []int{0, 1, 5, 30, 120, 600}[t.Draw(6)]
	p.StepGapMs = []int{0, 1, 10, 50}[t.Draw(4)]
	if p.Conf.Transport != "inproc" && t.Draw(3) == 0 {
		p.Faults = benignFaults(t, 800)
		p.Faults.Capacity = 0
	}
	if t.Draw(8) == 0 {
		p.Role = "server"
		p.InjectAtTLS = true
		p.Conf.Transport = "tcp"
		p.Conf.TLSCap = true
		p.Conf.Enc = [][]string{{"tls"}, {"tls", "none"}}[t.Draw(2)]
		p.Conf.Comp = []string{"none"}
		p.Conf.AuthOut = []int{0}
		p.Script = []Step{{Op: "auto"}, {Op: "auto"}, {Op: "auto"}, {Op: "auto", Choice: 1}, {Op: "auto", Choice: 1}}
		p.Faults = NoFaults()
		return p
	}
	if t.Draw(4) == 0 {
		// senders queued on the send mutex at the instant the endpoint ends the session itself:
		// back-to-back sends from several tasks, a peer that takes the envelopes slowly (no queue
		// in process, a small window behind a short stall on a socket), the end in the middle
		p.Role = "server"
		p.Script = []Step{{Op: "auto"}, {Op: "auto"}, {Op: "auto", Choice: 1}}
		p.EndMode = 0
		if t.Draw(3) == 0 {
			// ... or at the instant the peer ends it and keeps the connection open for a while: a
			// client whose write is stuck behind a small window, others queued behind it
			p.Role = "client"
			p.SScript = []SStep{{Op: "auto", To: 3}, {Op: "auto", To: 3}, {Op: "auto", To: 3}, {Op: "auto", To: 3}}
			p.EndMode = 1
			p.Conf.Transport = "tcp"
		}
		p.EndAtMs = []int{1, 2, 5, 30}[t.Draw(4)]
		p.Senders = 2 + t.Draw(2)
		p.Attempts = 6 + t.Draw(20)
		p.GapMs = [][]int{{0}, {0, 1}, {0, 0, 1}}[t.Draw(3)]
		p.StepGapMs = 0
		p.Conf.AuthOut = []int{0}
		if p.Conf.Transport == "inproc" {
			p.Conf.Buf = t.Draw(2)
		} else {
			p.Faults = NoFaults()
			p.Faults.Capacity = []int{16, 64, 512}[t.Draw(3)]
			p.Faults.Stalls = []StallS{{AfterBytes: int64(300 + t.Draw(1500)), ForMs: []int{3, 40, 700}[t.Draw(3)]}}
			if p.Role == "client" {
				p.Faults.Stalls[0].ForMs = []int{40, 700, 3000}[t.Draw(3)]
			}
		}
	}
	return p
}

type sendObs struct {
	startAt       time.Duration
	id            string
	before, after string
	err           error
	startStep     int
}

func runC06(w *World, pi interface{}) {
	p := pi.(*PlanC06)
	if p.Senders < 1 {
		p.Senders = 1
	}
	if p.Senders > 4 {
		p.Senders = 4
	}
	if p.Attempts > 40 {
		p.Attempts = 40
	}
	h := &History{}
	var chState func() string
	var sender lime.Sender
	var peer *RawPeer
	ready := NewFlag()
	finishLocal := func() {}
	endPeer := func() {}
	var sut *SUT

	if p.Role == "server" {
		if len(p.Conf.Schemes) == 0 {
			p.Conf.Schemes = []string{"guest"}
		}
		if len(p.Conf.Comp) == 0 {
			p.Conf.Comp = []string{"none"}
		}
		if len(p.Conf.Enc) == 0 {
			p.Conf.Enc = []string{"none"}
		}
		p.Conf.Full = false
		var err error
		sut, err = StartSUT(w, h, p.Conf, 8000)
		if err != nil {
			return
		}
		defer sut.Shutdown()
		w.Net.OnLink = func(lk *simnet.Link) { p.Faults.Apply(w, lk.BA) }
		peer, err = sut.Dial(0)
		if err != nil {
			return
		}
		sut.Peers = []*RawPeer{peer}
		if p.InjectAtTLS {
			peer.HelloDelim = "\n" + `{"id":"d-tls","type":"text/plain","content":"in front of the hello"}` + "\n"
		}
		if !w.Eventually(30*time.Second, func() bool { return len(sut.Chans) > 0 }) {
			return
		}
		sch := sut.Chans[0]
		sender = sch
		chState = func() string { return string(sch.State()) }
		finishLocal = func() {
			ctx, cancel := context.WithTimeout(context.Background(), 10*time.Second)
			defer cancel()
			if p.EndAtMs%2 == 0 {
				h.Add(0, "local-end", nil, "", fmt.Sprint("FinishSession: ", sch.FinishSession(ctx)))
			} else {
				h.Add(0, "local-end", nil, "", fmt.Sprint("FailSession: ", sch.FailSession(ctx, &lime.Reason{Code: 9, Description: "bye"})))
			}
		}
		endPeer = func() {
			peer.SendJSON(map[string]interface{}{"state": "finishing", "id": fstr(peer.LastSessionFrame(), "id")})
		}
		ready.Set()
		go func() {
			steps := p.Script
			for _, st := range steps {
				ScriptRun(w, peer, []Step{st})
				if p.StepGapMs > 0 {
					time.Sleep(time.Duration(p.StepGapMs) * time.Millisecond)
				}
			}
		}()
	} else {
		rl, err := w.Net.Listen(tcpAddr(8001).String())
		if err != nil {
			return
		}
		defer rl.Close()
		w.Net.OnLink = func(lk *simnet.Link) { p.Faults.Apply(w, lk.AB) }
		tr, err := lime.DialTcp(context.Background(), tcpAddr(8001), &lime.TCPConfig{})
		if err != nil {
			return
		}
		rc, err := rl.Accept()
		if err != nil {
			return
		}
		peer = NewRawTCPFromConn(w, h, 0, rc.(*simnet.Conn))
		cch := lime.NewClientChannel(tr, p.Conf.Buf)
		sender = cch
		chState = func() string { return string(cch.State()) }
		go func() {
			for range cch.MsgChan() {
			}
		}()
		finishLocal = func() {
			ctx, cancel := context.WithTimeout(context.Background(), 10*time.Second)
			defer cancel()
			_, err := cch.FinishSession(ctx)
			h.Add(0, "local-end", nil, "", fmt.Sprint("FinishSession: ", err))
		}
		endPeer = func() {
			st := []string{"finished", "failed"}[p.EndAtMs%2]
			peer.SendJSON(map[string]interface{}{"state": st, "id": "s1", "from": nodeVariants[0], "reason": map[string]interface{}{"code": 1, "description": "end"}})
		}
		ready.Set()
		// scripted server
		go func() {
			n := 0
			var dummy int
			for _, st := range p.SScript {
				if !peer.AwaitFrame(n, 30*time.Second) {
					return
				}
				n = peer.NFrames()
				if p.StepGapMs > 0 {
					time.Sleep(time.Duration(p.StepGapMs) * time.Millisecond)
				}
				last := peer.LastFrame()
				if !isSessionFrame(last) {
					// a data envelope from the client: not an input of the handshake script
					for _, e := range peer.h.Of(0, "s-frame") {
						if isSessionFrame(e.Frame) {
							last = e.Frame
						}
					}
				}
				if st.Op == "auto" || st.Op == "session" {
					m := serverFrame(st, "s1", last, &dummy)
					peer.SendJSON(m)
					if s := fstr(m, "state"); s == "established" || s == "failed" || s == "finished" {
						break // the handshake script is over; data envelopes are not inputs to it
					}
				}
			}
			// answer a finishing request, if any comes
			for {
				if !peer.AwaitFrame(n, 20*time.Second) {
					return
				}
				n = peer.NFrames()
				if lf := peer.LastFrame(); fstr(lf, "state") == "finishing" {
					peer.SendJSON(map[string]interface{}{"state": "finished", "id": "s1", "from": nodeVariants[0]})
					return
				}
			}
		}()
		go func() {
			ctx, cancel := context.WithTimeout(context.Background(), 60*time.Second)
			defer cancel()
			_, err := cch.EstablishSession(ctx, compSelector, lime.NoneEncryptionSelector, lime.Identity{Name: "a", Domain: "b.org"}, authenticatorFor("guest"), "i")
			h.Add(0, "estab-return", map[string]interface{}{"state": string(cch.State())}, "", fmt.Sprint(err))
		}()
	}
	w.Armed = true
	// when the endpoint itself first reports that its session is over
	var endSeenAt time.Duration = -1
	w.AfterEachStep(func() {
		if endSeenAt < 0 && chState != nil {
			if st := chState(); st == "finished" || st == "failed" {
				endSeenAt = simrt.Now()
			}
		}
	})
	// application senders, from before the handshake until after the end
	var obs []sendObs
	var done []*Flag
	for s := 0; s < p.Senders; s++ {
		s := s
		fl := NewFlag()
		done = append(done, fl)
		go func() {
			defer fl.Set()
			for j := 0; j < p.Attempts; j++ {
				id := fmt.Sprintf("app.%d.%d", s, j)
				e := BuildEnvelope(EnvSpec{Kind: (s + j) % 4, Seed: uint32(j), Size: 5}, id)
				o := sendObs{id: id, before: chState(), startStep: simrt.Step(), startAt: simrt.Now()}
				ctx, cancel := context.WithTimeout(context.Background(), 5*time.Second)
				o.err = sendVia(ctx, sender, e)
				cancel()
				o.after = chState()
				obs = append(obs, o)
				if len(p.GapMs) > 0 {
					if g := p.GapMs[j%len(p.GapMs)]; g > 0 {
						time.Sleep(time.Duration(g) * time.Millisecond)
					}
				}
				if j == p.Attempts-3 {
					// the last attempts come well after any end of the session
					time.Sleep(time.Duration(p.EndAtMs)*time.Millisecond + 8*time.Second)
				}
			}
		}()
	}
	// the end of the session
	go func() {
		time.Sleep(time.Duration(p.EndAtMs) * time.Millisecond)
		w.Eventually(5*time.Second, func() bool { return chState() == "established" })
		if chState() != "established" {
			return
		}
		switch p.EndMode {
		case 0:
			finishLocal()
		case 1:
			endPeer()
		case 3:
			if p.Role == "client" {
				// half an envelope, then the end of the stream: the session is over, although no
				// terminal envelope says so and the other direction still takes bytes
				peer.SendBytes([]byte(`{"id":"cut","type":"text/plain","content":"trunca`), "half-frame")
				peer.Close()
			} else {
				endPeer()
			}
		}
	}()
	for _, fl := range done {
		fl.WaitFor(20 * time.Minute)
	}
	time.Sleep(3 * time.Second)

	sig := func(what string) string { return fmt.Sprintf("%s role=%s transport=%s", what, p.Role, transportOf(p)) }
	pre := map[string]bool{"new": true, "negotiating": true, "authenticating": true}
	term := map[string]bool{"finished": true, "failed": true}
	onWire := map[string]int{}
	for _, e := range h.Of(0, "s-frame") {
		if !isSessionFrame(e.Frame) {
			onWire[fstr(e.Frame, "id")] = e.Seq
		}
	}
	for _, o := range obs {
		wholeCallPre := pre[o.after]
		wholeCallTerm := term[o.before]
		if (wholeCallPre || wholeCallTerm) && o.err == nil {
			w.Violate("C06.send-succeeded-outside-established", sig("state="+o.before+"->"+o.after), "send %s returned nil although the session state was %s before and %s after the call\n%s", o.id, o.before, o.after, h.Dump(50))
		}
		if _, ok := onWire[o.id]; ok && (wholeCallPre || wholeCallTerm) {
			w.Violate("C06.emitted-outside-established", sig("state="+o.before+"->"+o.after), "envelope %s reached the wire although the session state was %s before and %s after the send call\n%s", o.id, o.before, o.after, h.Dump(50))
		}
	}
	// client role: once the server's terminal session envelope has had time to arrive, the session is over
	// whatever the channel's own State() claims
	if p.Role == "client" {
		var endAt time.Duration = -1
		for _, e := range h.Of(0, "c-send", "c-close") {
			if (e.Kind == "c-close" || term[fstr(e.Frame, "state")]) && endAt < 0 {
				// (the server's terminal envelope, or the server closing the connection)
				endAt = time.Duration(e.AtMs) * time.Millisecond
			}
		}
		if endAt >= 0 {
			grace := 2 * time.Second
			for _, l := range p.Faults.LatencyMs {
				grace += time.Duration(l) * time.Millisecond
			}
			for _, st := range p.Faults.Stalls {
				grace += time.Duration(st.ForMs) * time.Millisecond
			}
			for _, o := range obs {
				if o.startAt > endAt+grace {
					if o.err == nil {
						w.Violate("C06.send-succeeded-after-session-ended", sig("client after terminal"), "send %s (started at %v) returned nil although the server had ended the session at %v (channel state %s)\n%s", o.id, o.startAt, endAt, o.before, h.Dump(50))
					}
					if _, ok := onWire[o.id]; ok {
						w.Violate("C06.emitted-after-session-ended", sig("client after terminal"), "envelope %s (send started at %v) reached the wire although the server had ended the session at %v\n%s", o.id, o.startAt, endAt, h.Dump(50))
					}
				}
			}
		}
	}
	// wire order: data frames only after the established frame and before the endpoint's terminal frame
	estSeq, termSeq := -1, -1
	for _, e := range h.Ev {
		if p.Role == "server" && e.Kind == "s-frame" && isSessionFrame(e.Frame) {
			if fstr(e.Frame, "state") == "established" && estSeq < 0 {
				estSeq = e.Seq
			}
			if term[fstr(e.Frame, "state")] && termSeq < 0 {
				termSeq = e.Seq
			}
		}
		if p.Role == "client" && e.Kind == "c-send" && fstr(e.Frame, "state") == "established" && estSeq < 0 {
			estSeq = e.Seq
		}
	}
	for _, e := range h.Of(0, "s-frame", "s-garbage") {
		if e.Kind == "s-garbage" {
			w.Violate("C06.garbled-frame-on-the-wire", sig("garbage"), "the endpoint put an undecodable frame on the wire: %s\n%s", e.Raw, h.Dump(50))
			continue
		}
		if isSessionFrame(e.Frame) || !strings.HasPrefix(fstr(e.Frame, "id"), "app.") {
			continue
		}
		if estSeq < 0 || e.Seq < estSeq {
			w.Violate("C06.data-before-established", sig(p.Role), "data envelope %s was on the wire before the session was established\n%s", fstr(e.Frame, "id"), h.Dump(50))
		}
		if termSeq >= 0 && e.Seq > termSeq {
			w.Violate("C06.data-after-terminal-session-envelope", sig(p.Role), "data envelope %s was written after the endpoint's own terminal session envelope\n%s", fstr(e.Frame, "id"), h.Dump(50))
		}
	}
	// wire truth: no data envelope is handed to the connection at a later instant than the one at
	// which the endpoint itself reported the end of its session (a send that found the session
	// established writes at once: simulated time cannot pass between its check and its write call)
	if peer != nil && peer.Link != nil && endSeenAt >= 0 {
		dir := peer.Link.BA
		if p.Role == "client" {
			dir = peer.Link.AB
		}
		tap := dir.Tap()
		writes, _ := dir.IOLog()
		for _, o := range obs {
			k := strings.Index(string(tap), `"id":"`+o.id+`"`)
			if k < 0 {
				continue
			}
			for _, io := range writes {
				if io.Off <= int64(k) && int64(k) < io.Off+int64(io.N) {
					// (the instant the write call was entered: a full send buffer takes the bytes later)
					if io.CallAt > endSeenAt {
						w.Violate("C06.emitted-after-observed-end", sig(p.Role), "envelope %s (send returned %v) was handed to the connection at %v, after the channel itself had reported the end of its session at %v\n%s", o.id, o.err, io.CallAt, endSeenAt, h.Dump(50))
					}
					break
				}
			}
		}
	}
	// receive direction (server role): a data envelope injected into the handshake aborts it and is never delivered
	if p.Role == "server" && sut != nil && len(sut.Chans) > 0 {
		sch := sut.Chans[0]
		var lastSes, firstData = -1, -1
		for _, e := range h.Of(0, "c-send") {
			if isSessionFrame(e.Frame) {
				if s := fstr(e.Frame, "state"); s == "new" || s == "negotiating" || s == "authenticating" {
					lastSes = e.Seq
				}
			} else if firstData < 0 {
				firstData = e.Seq
			}
		}
		if firstData >= 0 && firstData < lastSes && estSeq >= 0 && estSeq > lastSes {
			w.Violate("C06.handshake-survived-data-envelope", sig("server"), "a data envelope was injected into the handshake, yet the session was established afterwards\n%s", h.Dump(50))
		}
		delivered := 0
	drain:
		for {
			select {
			case m, ok := <-sch.MsgChan():
				if !ok {
					break drain
				}
				if strings.HasPrefix(m.ID, "d-") && estSeq < 0 {
					delivered++
				}
			case <-time.After(100 * time.Millisecond):
				break drain
			}
		}
		if delivered > 0 {
			w.Violate("C06.pre-establishment-envelope-delivered", sig("server"), "an envelope that arrived before establishment was passed to the inbound stream\n%s", h.Dump(50))
		}
	}
	if !peer.RemoteClosed().IsSet() {
		peer.Close()
	}
}

func transportOf(p *PlanC06) string {
	if p.Role == "client" {
		return "tcp"
	}
	return p.Conf.Transport
}

func init() {
	register(&PropDef{
		ID:     "C06",
		New:    func() interface{} { return &PlanC06{} },
		Gen:    genC06,
		Run:    runC06,
		MaxSim: 2 * time.Hour,
		Rule: "plans = (role: real ServerChannel vs scripted client over tcp/ws/in-process, or real ClientChannel vs scripted server over tcp; 1-3 application tasks that keep calling the four send operations from before the handshake until after the end, with gaps; " +
			"handshake paced by a step gap, optional round trip / rejection / data envelopes injected into the handshake / one deviating server answer; the end: local FinishSession/FailSession, peer-initiated (finishing request / finished / failed), or none, at a chosen instant; benign link faults); " +
			"templates: several back-to-back senders against a peer that takes envelopes slowly at the instant of the local end, or of a peer-initiated end that keeps the connection open; a peer that breaks off in the middle of an envelope; " +
			"oracle: a send whose whole call lay outside the established state fails and emits nothing, data frames on the wire only between the established and the endpoint's terminal session envelope, no garbled frame, injected data aborts the handshake and is never delivered; " +
			"no data envelope is handed to the connection at a later instant than the one at which the channel itself reported the end (write-call entry times from the simulated socket); " +
			"non-trivial = the endpoints connected; distinct = distinct (plan JSON, event-log hash)",
	})
}
