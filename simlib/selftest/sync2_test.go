package selftest

import (
	"bytes"
	"errors"
	"syscall"
	"testing"
	"time"

	"verifsim/simnet"
	"verifsim/simrt"
)

// The drop-ins for sync.WaitGroup/Cond/Pool/Map behave like the real ones inside a simulation
// and give the same event log for the same tape.
func TestSyncDropIns(t *testing.T) {
	run := func(seed uint64) (simrt.Result, []int, int) {
		tape := simrt.NewSearchTape(seed, 3)
		var order []int
		reused := 0
		var pool simrt.Pool
		pool.New = func() any { return new(bytes.Buffer) }
		res := simrt.Run(t, simrt.Config{Tape: tape, Strategy: simrt.StratRandom, KeepLog: true, MaxSimTime: time.Minute}, func() {
			var wg simrt.WaitGroup
			var mu simrt.Mutex
			cond := simrt.NewCond(&mu)
			ready := false
			var m simrt.Map
			for i := 0; i < 4; i++ {
				i := i
				wg.Add(1)
				simrt.Go("worker", func() {
					defer wg.Done()
					mu.Lock()
					for !ready {
						cond.Wait()
					}
					order = append(order, i)
					mu.Unlock()
					b := pool.Get().(*bytes.Buffer)
					if b.Len() > 0 {
						reused++
					}
					b.WriteString("x")
					pool.Put(b)
					m.Store(i, i*i)
				})
			}
			time.Sleep(time.Second)
			mu.Lock()
			ready = true
			cond.Broadcast()
			mu.Unlock()
			wg.Wait()
			n := 0
			m.Range(func(k, v any) bool { n++; return true })
			if n != 4 {
				panic("map lost entries")
			}
		})
		return res, order, reused
	}
	a, oa, ra := run(5)
	b, ob, rb := run(5)
	if a.EventHash != b.EventHash || len(oa) != 4 || len(ob) != 4 || ra != rb {
		t.Fatalf("same tape, different runs: %s vs %s, %v vs %v, %d vs %d", a.EventHash, b.EventHash, oa, ob, ra, rb)
	}
	if ra == 0 {
		t.Fatalf("the pool never handed a used buffer back within one run")
	}
	if a.Stop != "main-done" {
		t.Fatalf("run ended with %q", a.Stop)
	}
}

// Bytes already delivered stay readable after a reset; CloseWrite on a reset connection fails.
func TestResetSemantics(t *testing.T) {
	tape := simrt.NewSearchTape(1, 9)
	nw := simnet.NewNetwork()
	simnet.Install(nw)
	defer simnet.Uninstall()
	var readErr, cwErr error
	var got string
	res := simrt.Run(t, simrt.Config{Tape: tape, Strategy: simrt.StratSeq, KeepLog: true, MaxSimTime: time.Minute, OnTeardown: nw.Shutdown}, func() {
		l, _ := nw.Listen("127.0.0.1:9100")
		simrt.Go("srv", func() {
			c, err := l.Accept()
			if err != nil {
				return
			}
			c.Write([]byte("bye"))
			c.(*simnet.Conn).SetLinger(0)
			c.Close()
		})
		c, err := nw.Dial(t.Context(), "127.0.0.1:9100")
		if err != nil {
			panic(err)
		}
		time.Sleep(time.Second)
		b := make([]byte, 16)
		n, _ := c.Read(b)
		got = string(b[:n])
		_, readErr = c.Read(b)
		cwErr = c.CloseWrite()
		c.Close()
	})
	if res.Stop != "main-done" || got != "bye" || !errors.Is(readErr, syscall.ECONNRESET) || !errors.Is(cwErr, syscall.ENOTCONN) {
		t.Fatalf("stop=%s got=%q readErr=%v closeWriteErr=%v", res.Stop, got, readErr, cwErr)
	}
}
