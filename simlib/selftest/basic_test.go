package selftest

import (
	"context"
	"fmt"
	"io"
	"testing"
	"time"

	"verifsim/simnet"
	"verifsim/simrt"
)

func runOnce(t *testing.T, seed uint64, strat simrt.Strategy) simrt.Result {
	tape := simrt.NewSearchTape(seed, 7)
	nw := simnet.NewNetwork()
	simnet.Install(nw)
	defer simnet.Uninstall()
	var got []string
	res := simrt.Run(t, simrt.Config{Tape: tape, Strategy: strat, StickyPct: 70, PCTDepth: 3, KeepLog: true, MaxSimTime: 10 * time.Minute, OnTeardown: nw.Shutdown}, func() {
		l, err := nw.Listen("127.0.0.1:9000")
		if err != nil {
			panic(err)
		}
		var mu simrt.Mutex
		done := make(chan struct{})
		simrt.Go("server", func() {
			for i := 0; i < 3; i++ {
				c, err := l.Accept()
				if err != nil {
					return
				}
				simrt.Go("serve", func() {
					buf := make([]byte, 64)
					for {
						c.SetReadDeadline(time.Now().Add(5 * time.Second))
						n, err := c.Read(buf)
						if err != nil {
							if ne, ok := err.(interface{ Timeout() bool }); ok && ne.Timeout() {
								continue
							}
							c.Close()
							return
						}
						mu.Lock()
						got = append(got, string(buf[:n]))
						mu.Unlock()
						c.Write(buf[:n])
					}
				})
			}
		})
		for i := 0; i < 3; i++ {
			i := i
			simrt.Go("client", func() {
				c, err := nw.Dial(context.Background(), "127.0.0.1:9000")
				if err != nil {
					panic(err)
				}
				for j := 0; j < 3; j++ {
					simrt.Yield("pre-sleep")
					time.Sleep(time.Duration(i+1) * 7 * time.Second)
					simrt.Woke("post-sleep")
					msg := fmt.Sprintf("c%d-%d", i, j)
					c.Write([]byte(msg))
					b := make([]byte, 64)
					n, err := io.ReadAtLeast(c, b, len(msg))
					if err != nil || string(b[:n]) != msg {
						panic(fmt.Sprint("echo mismatch ", err, string(b[:n])))
					}
				}
				c.Close()
				simrt.Yield("pre-send")
				done <- struct{}{}
				simrt.Woke("post-send")
			})
		}
		for i := 0; i < 3; i++ {
			simrt.Yield("pre-recv")
			<-done
			simrt.Woke("post-recv")
		}
		l.Close()
	})
	if len(got) != 9 {
		t.Fatalf("got %d msgs: %v (stop=%s panics=%v)", len(got), got, res.Stop, res.Panics)
	}
	return res
}

func TestBasicDeterminism(t *testing.T) {
	for _, strat := range []simrt.Strategy{simrt.StratRandom, simrt.StratSticky, simrt.StratPCT, simrt.StratSeq} {
		hashes := map[string]bool{}
		for seed := uint64(1); seed <= 5; seed++ {
			r1 := runOnce(t, seed, strat)
			r2 := runOnce(t, seed, strat)
			if r1.EventHash != r2.EventHash {
				t.Fatalf("nondeterministic: seed %d strat %d\n%v\n%v", seed, strat, r1.Events, r2.Events)
			}
			if r1.Stop != "main-done" || len(r1.Panics) > 0 {
				t.Fatalf("stop=%s panics=%v bubble=%s", r1.Stop, r1.Panics, r1.BubbleErr)
			}
			hashes[r1.EventHash] = true
			if seed == 1 {
				t.Logf("strat %d steps=%d sim=%v decisions=%d dev=%d bubbleErr=%q", strat, r1.Steps, r1.SimTime, r1.Decisions, r1.Deviations, r1.BubbleErr)
			}
		}
		t.Logf("strat %d distinct hashes %d", strat, len(hashes))
	}
}

func BenchmarkRun(b *testing.B) {
	for i := 0; i < b.N; i++ {
		runOnce(&testing.T{}, uint64(i), simrt.StratRandom)
	}
}
