module verifsim

go 1.26
