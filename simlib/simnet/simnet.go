// Package simnet is an in-memory replacement for the parts of package net that lime-go uses.
// Connections are byte streams with per-direction fault plans (fragmentation, latency, stalls,
// bounded send buffers, cuts) and wire taps. All blocking goes through simrt, all timing
// through the bubble's fake clock.
package simnet

import (
	"context"
	"errors"
	"fmt"
	"io"
	"net"
	"os"
	"strconv"
	"sync"
	"sync/atomic"
	"syscall"
	"time"

	"verifsim/simrt"
)

// CutKind says how a link dies.
type CutKind int

const (
	CutNone CutKind = iota
	CutFIN          // orderly close of both directions
	CutRST          // reset: readers and writers on both sides fail
	CutHole         // black hole: bytes vanish, nobody is told
)

// DirPlan is the fault plan of one direction of a link.
type DirPlan struct {
	Chunk    func(avail int) int       // how many of the avail readable bytes a Read may return (nil: all)
	Delay    func(n int) time.Duration // delivery latency of a write of n bytes (nil: none)
	Capacity int                       // send buffer in bytes, 0 = unbounded
	Stalls   []Stall                   // pauses in delivery
	CutAfter int64                     // cut once this many bytes were written (<0: never)
	CutKind  CutKind
	Mutate   func(off int64, b []byte) // in-place corruption of bytes on their way (nil: none)
}

// Stall pauses delivery for For once AfterBytes bytes have been delivered.
type Stall struct {
	AfterBytes int64
	For        time.Duration
}

// IO records one Read or Write call on the tap.
type IO struct {
	Off  int64
	N    int
	Step int
	At   time.Duration
	Err  string
	// CallAt is, for writes, the instant the Write call that carried these bytes was entered (At
	// is when the send buffer took them, which is later when the buffer was full)
	CallAt time.Duration
}

type chunk struct {
	data []byte
	at   time.Time
}

// Dir is one direction of a link.
type Dir struct {
	Name       string
	link       *Link
	Plan       DirPlan
	buf        []byte
	inflight   []chunk
	inflightN  int
	written    int64
	delivered  int64
	read       int64
	fin        bool // writer closed; EOF after the remaining bytes
	rst        bool
	hole       bool
	readerGone bool // reading side closed locally
	pipeBroken bool // a write to a gone reader already "succeeded" once
	stallUntil time.Time
	stallIdx   int
	lastAt     time.Time
	rw, ww     *simrt.Waiter
	timer      *time.Timer
	Writes     []IO
	Reads      []IO
	tap        []byte
	TapLimit   int
	cutDone    bool
}

// Link is one simulated connection.
type Link struct {
	ID   int
	net  *Network
	Addr string
	A, B *Conn // A dialled, B was accepted
	AB   *Dir  // bytes from A to B
	BA   *Dir
}

// Network is the simulated network of one run.
type Network struct {
	mu        sync.Mutex
	listeners map[string]*Listener
	Links     []*Link
	OnLink    func(l *Link)           // called (without locks) when a link is created, before either side sees it
	DialFault func(addr string) error // non-nil result refuses the dial
	nextPort  int
	closed    bool
	Stats     map[string]int
}

var curNet atomic.Pointer[Network]

// NewNetwork creates an empty network.
func NewNetwork() *Network {
	return &Network{listeners: map[string]*Listener{}, nextPort: 40000, Stats: map[string]int{}}
}

// Install makes n the network that the Dialer/ListenConfig drop-ins use.
func Install(n *Network) { curNet.Store(n) }

// Uninstall restores pass-through to package net.
func Uninstall() { curNet.Store(nil) }

// Current returns the installed network.
func Current() *Network { return curNet.Load() }

func (n *Network) stat(k string) { n.Stats[k]++ }

// Stat counts a fault or event (harness-visible).
func (n *Network) Stat(k string) {
	n.mu.Lock()
	n.Stats[k]++
	n.mu.Unlock()
}

type simAddr struct{ s string }

func (a simAddr) Network() string { return "tcp" }
func (a simAddr) String() string  { return a.s }

type timeoutError struct{ op string }

func (e *timeoutError) Error() string   { return "simnet " + e.op + ": i/o timeout" }
func (e *timeoutError) Timeout() bool   { return true }
func (e *timeoutError) Temporary() bool { return true }
func (e *timeoutError) Is(err error) bool {
	return err == os.ErrDeadlineExceeded || err == context.DeadlineExceeded
}

func opErr(op string, err error) error {
	return &net.OpError{Op: op, Net: "tcp", Err: err}
}

// ---- listener ----

// Listener is a simulated net.Listener.
type Listener struct {
	n      *Network
	addr   simAddr
	queue  []*Conn
	closed bool
	w      *simrt.Waiter
}

func normAddr(addr string) string {
	host, port, err := net.SplitHostPort(addr)
	if err != nil {
		return addr
	}
	if host == "" || host == "0.0.0.0" || host == "::" || host == "localhost" {
		host = "127.0.0.1"
	}
	return net.JoinHostPort(host, port)
}

// Listen opens a simulated listener.
func (n *Network) Listen(addr string) (*Listener, error) {
	addr = normAddr(addr)
	n.mu.Lock()
	defer n.mu.Unlock()
	host, port, err := net.SplitHostPort(addr)
	if err == nil && port == "0" {
		n.nextPort++
		addr = net.JoinHostPort(host, strconv.Itoa(n.nextPort))
	}
	if _, ok := n.listeners[addr]; ok {
		return nil, opErr("listen", syscall.EADDRINUSE)
	}
	l := &Listener{n: n, addr: simAddr{addr}}
	n.listeners[addr] = l
	return l, nil
}

func (l *Listener) Addr() net.Addr { return l.addr }

func (l *Listener) Accept() (net.Conn, error) {
	simrt.YieldHint("net.accept", "L"+l.addr.s)
	for {
		l.n.mu.Lock()
		if l.closed {
			l.n.mu.Unlock()
			return nil, opErr("accept", net.ErrClosed)
		}
		if len(l.queue) > 0 {
			c := l.queue[0]
			l.queue = l.queue[1:]
			c.accepted = true
			l.n.mu.Unlock()
			return c, nil
		}
		w := simrt.NewWaiter()
		l.w = w
		l.n.mu.Unlock()
		w.Wait("net.accept.wait")
	}
}

func (l *Listener) Close() error {
	simrt.Serialize("net.lclose", "L"+l.addr.s+"x")
	l.n.mu.Lock()
	if l.closed {
		l.n.mu.Unlock()
		return opErr("close", net.ErrClosed)
	}
	l.closed = true
	if l.n.listeners[l.addr.s] == l {
		delete(l.n.listeners, l.addr.s)
	}
	q := l.queue
	l.queue = nil
	w := l.w
	l.w = nil
	for _, c := range q {
		c.link.cutLocked(CutRST)
	}
	l.n.mu.Unlock()
	if w != nil {
		w.Fire()
	}
	return nil
}

// ---- dialing ----

// Dial connects to a simulated listener.
func (n *Network) Dial(ctx context.Context, addr string) (*Conn, error) {
	addr = normAddr(addr)
	simrt.YieldHint("net.dial", "D"+addr)
	if err := ctx.Err(); err != nil {
		return nil, opErr("dial", err)
	}
	if f := n.DialFault; f != nil {
		if err := f(addr); err != nil {
			return nil, opErr("dial", err)
		}
	}
	n.mu.Lock()
	l := n.listeners[addr]
	if l == nil || l.closed || n.closed {
		n.mu.Unlock()
		return nil, opErr("dial", syscall.ECONNREFUSED)
	}
	id := len(n.Links)
	n.nextPort++
	lk := &Link{ID: id, net: n, Addr: addr}
	lk.AB = &Dir{Name: "c2s", link: lk, Plan: DirPlan{CutAfter: -1}, TapLimit: 1 << 20}
	lk.BA = &Dir{Name: "s2c", link: lk, Plan: DirPlan{CutAfter: -1}, TapLimit: 1 << 20}
	la := simAddr{"127.0.0.1:" + strconv.Itoa(n.nextPort)}
	lk.A = &Conn{link: lk, side: "A", in: lk.BA, out: lk.AB, laddr: la, raddr: l.addr}
	lk.B = &Conn{link: lk, side: "B", in: lk.AB, out: lk.BA, laddr: l.addr, raddr: la}
	n.Links = append(n.Links, lk)
	hook := n.OnLink
	n.mu.Unlock()
	if hook != nil {
		hook(lk)
	}
	n.mu.Lock()
	if l.closed {
		n.mu.Unlock()
		return nil, opErr("dial", syscall.ECONNREFUSED)
	}
	l.queue = append(l.queue, lk.B)
	w := l.w
	l.w = nil
	n.mu.Unlock()
	if w != nil {
		w.Fire()
	}
	return lk.A, nil
}

// ---- connection ----

// Conn is one end of a link.
type Conn struct {
	link         *Link
	side         string
	in, out      *Dir
	laddr, raddr simAddr
	closed       bool
	linger0      bool
	accepted     bool // handed to the application by Listener.Accept (the dialling end counts as accepted)
	rdl, wdl     time.Time
	rtimer       *time.Timer
	wtimer       *time.Timer
}

// Link returns the link this connection belongs to.
func (c *Conn) Link() *Link { return c.link }

// Side is "A" for the dialling end and "B" for the accepted end.
func (c *Conn) Side() string { return c.side }

func (c *Conn) hint() string { return "c" + strconv.Itoa(c.link.ID) + c.side }

func (c *Conn) LocalAddr() net.Addr  { return c.laddr }
func (c *Conn) RemoteAddr() net.Addr { return c.raddr }

func fire(w **simrt.Waiter) {
	if *w != nil {
		(*w).Fire()
		*w = nil
	}
}

func (c *Conn) Read(b []byte) (int, error) {
	simrt.YieldHint("net.read", c.hint())
	n := c.link.net
	d := c.in
	for {
		n.mu.Lock()
		now := time.Now()
		switch {
		case c.closed:
			n.mu.Unlock()
			return 0, opErr("read", net.ErrClosed)
		case d.rst && len(d.buf) == 0:
			d.Reads = append(d.Reads, IO{Off: d.read, Err: "reset", Step: simrt.Step(), At: simrt.Now()})
			n.mu.Unlock()
			return 0, opErr("read", syscall.ECONNRESET)
		case len(b) == 0:
			n.mu.Unlock()
			return 0, nil
		case len(d.buf) > 0:
			// (also after a reset: what had already been delivered to this host is still in its
			// receive queue and is read before the error, as on Linux; what was in flight is gone)
			k := len(d.buf)
			if k > len(b) {
				k = len(b)
			}
			if d.Plan.Chunk != nil {
				if q := d.Plan.Chunk(k); q >= 1 && q < k {
					k = q
					n.stat("frag-read")
				}
			}
			copy(b, d.buf[:k])
			d.buf = d.buf[k:]
			d.Reads = append(d.Reads, IO{Off: d.read, N: k, Step: simrt.Step(), At: simrt.Now()})
			d.read += int64(k)
			ww := d.ww
			d.ww = nil
			n.mu.Unlock()
			if ww != nil {
				ww.Fire()
			}
			return k, nil
		case d.fin && len(d.inflight) == 0:
			d.Reads = append(d.Reads, IO{Off: d.read, Err: "EOF", Step: simrt.Step(), At: simrt.Now()})
			n.mu.Unlock()
			return 0, io.EOF
		case !c.rdl.IsZero() && !now.Before(c.rdl):
			n.stat("read-timeout")
			n.mu.Unlock()
			return 0, opErr("read", &timeoutError{"read"})
		}
		w := simrt.NewWaiter()
		d.rw = w
		if !c.rdl.IsZero() {
			if c.rtimer != nil {
				c.rtimer.Stop()
			}
			c.rtimer = time.AfterFunc(c.rdl.Sub(now), w.Fire)
		}
		n.mu.Unlock()
		w.Wait("net.read.wait")
	}
}

func (c *Conn) Write(b []byte) (int, error) {
	// No scheduling point on entry: libraries call Write with their own sync.Mutex held
	// (http.Server.Close -> tls.Conn.Close -> close_notify), and a goroutine parked here would
	// leave their other goroutines blocked non-durably. Write parks only when it must block.
	n := c.link.net
	d := c.out
	total := 0
	callAt := simrt.Now()
	for {
		n.mu.Lock()
		now := time.Now()
		switch {
		case c.closed:
			n.mu.Unlock()
			return total, opErr("write", net.ErrClosed)
		case d.rst || d.cutDone && d.Plan.CutKind != CutHole:
			d.Writes = append(d.Writes, IO{Off: d.written, Err: "broken", Step: simrt.Step(), At: simrt.Now(), CallAt: callAt})
			n.mu.Unlock()
			return total, opErr("write", syscall.EPIPE)
		case d.readerGone && d.pipeBroken:
			d.Writes = append(d.Writes, IO{Off: d.written, Err: "broken", Step: simrt.Step(), At: simrt.Now(), CallAt: callAt})
			n.mu.Unlock()
			return total, opErr("write", syscall.EPIPE)
		case !c.wdl.IsZero() && !now.Before(c.wdl):
			n.stat("write-timeout")
			if total > 0 {
				n.stat("short-write")
			}
			d.Writes = append(d.Writes, IO{Off: d.written - int64(total), N: total, Err: "timeout", Step: simrt.Step(), At: simrt.Now(), CallAt: callAt})
			n.mu.Unlock()
			return total, opErr("write", &timeoutError{"write"})
		}
		if d.readerGone || d.hole {
			// the bytes leave the host and vanish
			if d.readerGone {
				d.pipeBroken = true
			}
			k := len(b) - total
			d.tapAppend(b[total:])
			d.Writes = append(d.Writes, IO{Off: d.written, N: k, Step: simrt.Step(), At: simrt.Now(), CallAt: callAt, Err: "lost"})
			d.written += int64(k)
			n.mu.Unlock()
			return len(b), nil
		}
		k := len(b) - total
		if cp := d.Plan.Capacity; cp > 0 {
			space := cp - (len(d.buf) + d.inflightN)
			if space < 0 {
				space = 0
			}
			if k > space {
				k = space
				n.stat("sendbuf-full")
			}
		}
		if k > 0 {
			data := append([]byte(nil), b[total:total+k]...)
			d.tapAppend(data)
			d.Writes = append(d.Writes, IO{Off: d.written, N: k, Step: simrt.Step(), At: simrt.Now(), CallAt: callAt})
			cutNow := false
			if ca := d.Plan.CutAfter; ca >= 0 && !d.cutDone && d.written+int64(k) >= ca {
				keep := int(ca - d.written)
				if keep < 0 {
					keep = 0
				}
				data = data[:keep]
				cutNow = true
			}
			if d.Plan.Mutate != nil && len(data) > 0 {
				d.Plan.Mutate(d.written, data)
			}
			d.written += int64(k)
			total += k
			if len(data) > 0 {
				at := now
				if d.Plan.Delay != nil {
					if dl := d.Plan.Delay(len(data)); dl > 0 {
						at = now.Add(dl)
						n.stat("latency")
					}
				}
				if at.Before(d.lastAt) {
					at = d.lastAt
				}
				d.lastAt = at
				d.inflight = append(d.inflight, chunk{data, at})
				d.inflightN += len(data)
			}
			if cutNow {
				d.cutDone = true
				n.stat("cut-" + cutName(d.Plan.CutKind))
				d.link.cutLocked(d.Plan.CutKind)
			}
			d.pumpLocked(now)
		}
		if total == len(b) {
			n.mu.Unlock()
			return total, nil
		}
		w := simrt.NewWaiter()
		d.ww = w
		if !c.wdl.IsZero() {
			if c.wtimer != nil {
				c.wtimer.Stop()
			}
			c.wtimer = time.AfterFunc(c.wdl.Sub(now), w.Fire)
		}
		n.mu.Unlock()
		simrt.Probe("write-blocked-on-sendbuf")
		w.Wait("net.write.wait")
	}
}

func cutName(k CutKind) string {
	switch k {
	case CutFIN:
		return "fin"
	case CutRST:
		return "rst"
	case CutHole:
		return "hole"
	}
	return "none"
}

func (d *Dir) tapAppend(b []byte) {
	if room := d.TapLimit - len(d.tap); room > 0 {
		if len(b) > room {
			b = b[:room]
		}
		d.tap = append(d.tap, b...)
	}
}

// pumpLocked moves due in-flight chunks into the readable buffer, honouring stalls.
func (d *Dir) pumpLocked(now time.Time) {
	n := d.link.net
	for len(d.inflight) > 0 {
		if now.Before(d.stallUntil) {
			d.armLocked(d.stallUntil.Sub(now))
			break
		}
		ch := d.inflight[0]
		if ch.at.After(now) {
			d.armLocked(ch.at.Sub(now))
			break
		}
		take := len(ch.data)
		if d.stallIdx < len(d.Plan.Stalls) {
			st := d.Plan.Stalls[d.stallIdx]
			if left := st.AfterBytes - d.delivered; left <= int64(take) {
				if left < 0 {
					left = 0
				}
				take = int(left)
				d.stallIdx++
				d.stallUntil = now.Add(st.For)
				n.stat("stall")
			}
		}
		d.buf = append(d.buf, ch.data[:take]...)
		d.delivered += int64(take)
		d.inflightN -= take
		if take == len(ch.data) {
			d.inflight = d.inflight[1:]
		} else {
			d.inflight[0].data = ch.data[take:]
		}
	}
	if len(d.buf) > 0 || (d.fin && len(d.inflight) == 0) {
		fire(&d.rw)
	}
}

func (d *Dir) armLocked(after time.Duration) {
	if d.timer != nil {
		d.timer.Stop()
	}
	n := d.link.net
	d.timer = time.AfterFunc(after, func() {
		n.mu.Lock()
		d.pumpLocked(time.Now())
		n.mu.Unlock()
	})
}

// StallFor pauses delivery in this direction for dur, starting now.
func (d *Dir) StallFor(dur time.Duration) {
	n := d.link.net
	n.mu.Lock()
	until := time.Now().Add(dur)
	if until.After(d.stallUntil) {
		d.stallUntil = until
	}
	n.stat("stall")
	n.mu.Unlock()
}

// SetCapacity changes the send-buffer bound of this direction from now on (0 = unbounded).
func (d *Dir) SetCapacity(n int) {
	nw := d.link.net
	nw.mu.Lock()
	d.Plan.Capacity = n
	fire(&d.ww)
	nw.mu.Unlock()
}

// Tap returns a copy of every byte written into this direction so far.
func (d *Dir) Tap() []byte {
	n := d.link.net
	n.mu.Lock()
	defer n.mu.Unlock()
	return append([]byte(nil), d.tap...)
}

// Counters returns written, delivered and read byte counts.
func (d *Dir) Counters() (written, delivered, read int64) {
	n := d.link.net
	n.mu.Lock()
	defer n.mu.Unlock()
	return d.written, d.delivered, d.read
}

// IOLog returns copies of the write and read call records.
func (d *Dir) IOLog() (writes, reads []IO) {
	n := d.link.net
	n.mu.Lock()
	defer n.mu.Unlock()
	return append([]IO(nil), d.Writes...), append([]IO(nil), d.Reads...)
}

// Closed reports whether the writer of this direction has closed it (FIN sent or reset).
func (d *Dir) Closed() bool {
	n := d.link.net
	n.mu.Lock()
	defer n.mu.Unlock()
	return d.fin || d.rst
}

func (lk *Link) cutLocked(kind CutKind) {
	for _, d := range []*Dir{lk.AB, lk.BA} {
		switch kind {
		case CutFIN:
			d.fin = true
			d.cutDone = true
			if d.Plan.CutKind == CutNone {
				d.Plan.CutKind = CutFIN
			}
		case CutRST:
			d.rst = true
			d.cutDone = true
			d.inflight = nil
			d.inflightN = 0
		case CutHole:
			d.hole = true
		}
		if kind != CutHole {
			fire(&d.ww)
			if kind == CutRST {
				fire(&d.rw)
			} else {
				d.pumpLocked(time.Now())
				if len(d.inflight) == 0 {
					fire(&d.rw)
				}
			}
		}
	}
}

// Cut severs the link now.
func (lk *Link) Cut(kind CutKind) {
	lk.net.mu.Lock()
	lk.net.stat("cut-" + cutName(kind))
	lk.cutLocked(kind)
	lk.net.mu.Unlock()
}

// Close closes this end: the peer reads EOF after the bytes already sent, and the peer's
// later writes are lost, then fail.
func (c *Conn) Close() error {
	simrt.Serialize("net.close", c.hint()+"x")
	n := c.link.net
	n.mu.Lock()
	if c.closed {
		n.mu.Unlock()
		return opErr("close", net.ErrClosed)
	}
	c.closed = true
	if c.linger0 {
		c.link.cutLocked(CutRST)
	}
	c.out.fin = true
	c.in.readerGone = true
	if c.rtimer != nil {
		c.rtimer.Stop()
	}
	if c.wtimer != nil {
		c.wtimer.Stop()
	}
	fire(&c.in.rw)  // our blocked reader
	fire(&c.out.ww) // our blocked writer
	fire(&c.in.ww)  // the peer's blocked writer
	c.out.pumpLocked(time.Now())
	if len(c.out.inflight) == 0 {
		fire(&c.out.rw)
	}
	n.mu.Unlock()
	return nil
}

// CloseWrite half-closes the connection (FIN without closing the read side).
func (c *Conn) CloseWrite() error {
	n := c.link.net
	n.mu.Lock()
	if c.closed {
		n.mu.Unlock()
		return opErr("close", net.ErrClosed)
	}
	if c.out.rst {
		// shutdown(2) on a connection the peer has reset
		n.mu.Unlock()
		return opErr("shutdown", syscall.ENOTCONN)
	}
	c.out.fin = true
	c.out.pumpLocked(time.Now())
	if len(c.out.inflight) == 0 {
		fire(&c.out.rw)
	}
	n.mu.Unlock()
	return nil
}

// CloseRead shuts down the reading side: later reads fail, the peer's writes are lost.
func (c *Conn) CloseRead() error {
	n := c.link.net
	n.mu.Lock()
	defer n.mu.Unlock()
	if c.closed {
		return opErr("close", net.ErrClosed)
	}
	c.in.readerGone = true
	fire(&c.in.rw)
	fire(&c.in.ww)
	return nil
}

// The remaining *net.TCPConn knobs exist so that code asserting the concrete type keeps
// building; they have no effect on the simulated link, except SetLinger(0), after which Close
// resets the connection instead of finishing it.
func (c *Conn) SetNoDelay(bool) error                  { return nil }
func (c *Conn) SetKeepAlive(bool) error                { return nil }
func (c *Conn) SetKeepAlivePeriod(time.Duration) error { return nil }
func (c *Conn) SetReadBuffer(int) error                { return nil }
func (c *Conn) SetWriteBuffer(int) error               { return nil }
func (c *Conn) SetLinger(sec int) error {
	n := c.link.net
	n.mu.Lock()
	c.linger0 = sec == 0
	n.mu.Unlock()
	return nil
}

// Accepted reports whether this end was handed to an application: the dialling end always, the
// listening end once Listener.Accept returned it. A connection still in the accept queue when
// its listener closes is reset by the (simulated) kernel and was never the application's to close.
func (c *Conn) Accepted() bool {
	n := c.link.net
	n.mu.Lock()
	defer n.mu.Unlock()
	return c.side == "A" || c.accepted
}

// IsClosed reports whether Close was called on this end.
func (c *Conn) IsClosed() bool {
	n := c.link.net
	n.mu.Lock()
	defer n.mu.Unlock()
	return c.closed
}

func (c *Conn) SetDeadline(t time.Time) error {
	c.SetReadDeadline(t)
	return c.SetWriteDeadline(t)
}

func (c *Conn) SetReadDeadline(t time.Time) error {
	n := c.link.net
	n.mu.Lock()
	if c.closed {
		n.mu.Unlock()
		return opErr("set", net.ErrClosed)
	}
	c.rdl = t
	fire(&c.in.rw) // a blocked reader re-evaluates against the new deadline
	n.mu.Unlock()
	return nil
}

func (c *Conn) SetWriteDeadline(t time.Time) error {
	n := c.link.net
	n.mu.Lock()
	if c.closed {
		n.mu.Unlock()
		return opErr("set", net.ErrClosed)
	}
	c.wdl = t
	fire(&c.out.ww)
	n.mu.Unlock()
	return nil
}

// Shutdown kills every link and listener; used when a run is torn down.
func (n *Network) Shutdown() {
	n.mu.Lock()
	n.closed = true
	var ws []*simrt.Waiter
	for _, l := range n.listeners {
		l.closed = true
		if l.w != nil {
			ws = append(ws, l.w)
			l.w = nil
		}
	}
	n.listeners = map[string]*Listener{}
	for _, lk := range n.Links {
		for _, c := range []*Conn{lk.A, lk.B} {
			c.closed = true
			if c.rtimer != nil {
				c.rtimer.Stop()
			}
			if c.wtimer != nil {
				c.wtimer.Stop()
			}
		}
		for _, d := range []*Dir{lk.AB, lk.BA} {
			d.rst = true
			if d.timer != nil {
				d.timer.Stop()
			}
			for _, w := range []**simrt.Waiter{&d.rw, &d.ww} {
				if *w != nil {
					ws = append(ws, *w)
					*w = nil
				}
			}
		}
	}
	n.mu.Unlock()
	for _, w := range ws {
		w.Fire()
	}
}

// Listening reports whether something listens on addr.
func (n *Network) Listening(addr string) bool {
	n.mu.Lock()
	defer n.mu.Unlock()
	l := n.listeners[normAddr(addr)]
	return l != nil && !l.closed
}

// LinkCount returns the number of links created so far.
func (n *Network) LinkCount() int {
	n.mu.Lock()
	defer n.mu.Unlock()
	return len(n.Links)
}

// GetLink returns link i.
func (n *Network) GetLink(i int) *Link {
	n.mu.Lock()
	defer n.mu.Unlock()
	if i < 0 || i >= len(n.Links) {
		return nil
	}
	return n.Links[i]
}

// TakeStats returns a copy of the fault counters.
func (n *Network) TakeStats() map[string]int {
	n.mu.Lock()
	defer n.mu.Unlock()
	out := map[string]int{}
	for k, v := range n.Stats {
		out[k] = v
	}
	return out
}

// ---- drop-ins for package net ----

// Dialer replaces net.Dialer in instrumented code.
type Dialer struct{ net.Dialer }

func (d *Dialer) DialContext(ctx context.Context, network, addr string) (net.Conn, error) {
	n := curNet.Load()
	if n == nil {
		return d.Dialer.DialContext(ctx, network, addr)
	}
	c, err := n.Dial(ctx, addr)
	if err != nil {
		return nil, err
	}
	return c, nil
}

// DialContext is a NetDialContext for websocket.Dialer.
func DialContext(ctx context.Context, network, addr string) (net.Conn, error) {
	var d Dialer
	return d.DialContext(ctx, network, addr)
}

// ListenConfig replaces net.ListenConfig in instrumented code.
type ListenConfig struct{ net.ListenConfig }

func (lc *ListenConfig) Listen(ctx context.Context, network, addr string) (net.Listener, error) {
	n := curNet.Load()
	if n == nil {
		return lc.ListenConfig.Listen(ctx, network, addr)
	}
	l, err := n.Listen(addr)
	if err != nil {
		return nil, err
	}
	return l, nil
}

var _ net.Conn = (*Conn)(nil)
var _ net.Listener = (*Listener)(nil)
var _ = errors.New
var _ = fmt.Sprintf

// Inject puts bytes into this direction as if the writing side had sent them (a corrupting
// middlebox or a misbehaving peer below the protocol layer).
func (d *Dir) Inject(b []byte) {
	n := d.link.net
	n.mu.Lock()
	defer n.mu.Unlock()
	if d.rst || d.fin {
		return
	}
	data := append([]byte(nil), b...)
	d.inflight = append(d.inflight, chunk{data, time.Now()})
	d.inflightN += len(data)
	n.stat("injected-bytes")
	d.pumpLocked(time.Now())
}
