package simnet

import (
	"context"
	"crypto/tls"
	"net"

	"verifsim/simrt"
)

// TLSConn replaces *tls.Conn in instrumented code. crypto/tls serialises writers (and
// readers) of one connection with sync.Mutexes, on which a goroutine does not block durably
// inside a synctest bubble; TLSConn takes simulator-level mutexes first, so that the same
// contention is visible to (and decided by) the scheduler.
type TLSConn struct {
	*tls.Conn
	wmu simrt.Mutex
	rmu simrt.Mutex
}

// TLSServer replaces tls.Server.
func TLSServer(conn net.Conn, cfg *tls.Config) *TLSConn {
	return &TLSConn{Conn: tls.Server(conn, cfg)}
}

// TLSClient replaces tls.Client.
func TLSClient(conn net.Conn, cfg *tls.Config) *TLSConn {
	return &TLSConn{Conn: tls.Client(conn, cfg)}
}

func (c *TLSConn) Read(b []byte) (int, error) {
	c.rmu.Lock()
	defer c.rmu.Unlock()
	return c.Conn.Read(b)
}

func (c *TLSConn) Write(b []byte) (int, error) {
	c.wmu.Lock()
	defer c.wmu.Unlock()
	return c.Conn.Write(b)
}

func (c *TLSConn) Handshake() error {
	return c.HandshakeContext(context.Background())
}

func (c *TLSConn) HandshakeContext(ctx context.Context) error {
	c.rmu.Lock()
	defer c.rmu.Unlock()
	c.wmu.Lock()
	defer c.wmu.Unlock()
	return c.Conn.HandshakeContext(ctx)
}

// TLSListener replaces http.Server.ServeTLS's internal tls.NewListener in instrumented code:
// accepted connections are TLSConn wrappers, so that concurrent readers or writers of one
// connection contend on simulator mutexes instead of crypto/tls's own.
func TLSListener(l net.Listener, cfg *tls.Config) net.Listener {
	if cfg == nil {
		cfg = &tls.Config{}
	}
	return &tlsListener{Listener: l, cfg: cfg}
}

type tlsListener struct {
	net.Listener
	cfg *tls.Config
}

func (l *tlsListener) Accept() (net.Conn, error) {
	c, err := l.Listener.Accept()
	if err != nil {
		return nil, err
	}
	return TLSServer(c, l.cfg), nil
}
