// Command instrument rewrites the non-test Go files of one package directory (a scratch copy
// of lime-go) so that every synchronisation point passes through the simulator:
//
//   - go statements            -> simrt.Go
//   - channel send/receive     -> simrt.Yield before, simrt.Woke after
//   - select                   -> tape-ordered polling, native blocking fallback, simrt.Woke
//   - sync.Mutex/RWMutex/Once  -> simrt types
//   - net.Dialer/ListenConfig, websocket.Dialer, tls.Server/Client -> simnet drop-ins
//   - X.Go(f) (errgroup)       -> X.Go(simrt.WrapErrFunc(site, f))
//   - Sleep/Wait calls         -> yields around the statement
//   - every loop               -> loop-head yield
//
// It uses go/ast only (no type information). Anything it cannot handle is a fatal error
// (exit 2), never a silent skip.
package main

import (
	"bytes"
	"flag"
	"fmt"
	"go/ast"
	"go/parser"
	"go/printer"
	"go/token"
	"os"
	"path/filepath"
	"reflect"
	"sort"
	"strconv"
	"strings"
)

var dense = flag.String("dense", "", "comma-separated file names that get a yield before every statement")

func fatal(format string, args ...interface{}) {
	fmt.Fprintf(os.Stderr, "instrument: "+format+"\n", args...)
	os.Exit(2)
}

var globals = flag.Bool("globals", false, "generate VerifResetGlobals for the package-level variables")

func resetFuncName(file string) string {
	return "verifReset_" + strings.NewReplacer(".", "_", "-", "_").Replace(file)
}

// globalResets returns, per file, the source of a function that re-initialises the file's
// package-level variables, leaving out every variable that is reachable (by name, through the
// package's functions) from an init function or from the initialiser of a variable.
func globalResets(dir string, ents []os.DirEntry) (map[string]string, string, error) {
	fset := token.NewFileSet()
	type fileInfo struct {
		name string
		src  []byte
		f    *ast.File
	}
	var files []fileInfo
	pkg := ""
	for _, e := range ents {
		name := e.Name()
		if e.IsDir() || !strings.HasSuffix(name, ".go") || strings.HasSuffix(name, "_test.go") {
			continue
		}
		src, err := os.ReadFile(filepath.Join(dir, name))
		if err != nil {
			return nil, "", err
		}
		if bytes.Contains(src, []byte("//verif:noinstrument")) {
			continue
		}
		f, err := parser.ParseFile(fset, name, src, 0)
		if err != nil {
			return nil, "", err
		}
		pkg = f.Name.Name
		files = append(files, fileInfo{name, src, f})
	}
	idents := func(n ast.Node) map[string]bool {
		out := map[string]bool{}
		ast.Inspect(n, func(x ast.Node) bool {
			if id, ok := x.(*ast.Ident); ok {
				out[id.Name] = true
			}
			return true
		})
		return out
	}
	funcRefs := map[string]map[string]bool{}
	reach := map[string]bool{}
	var work []string
	add := func(m map[string]bool) {
		for k := range m {
			if !reach[k] {
				reach[k] = true
				work = append(work, k)
			}
		}
	}
	for _, fi := range files {
		for _, d := range fi.f.Decls {
			switch x := d.(type) {
			case *ast.FuncDecl:
				if x.Body == nil {
					continue
				}
				ids := idents(x.Body)
				if x.Name.Name == "init" && x.Recv == nil {
					add(ids)
					continue
				}
				if funcRefs[x.Name.Name] == nil {
					funcRefs[x.Name.Name] = map[string]bool{}
				}
				for k := range ids {
					funcRefs[x.Name.Name][k] = true
				}
			case *ast.GenDecl:
				if x.Tok != token.VAR {
					continue
				}
				for _, sp := range x.Specs {
					for _, v := range sp.(*ast.ValueSpec).Values {
						add(idents(v))
					}
				}
			}
		}
	}
	for len(work) > 0 {
		k := work[len(work)-1]
		work = work[:len(work)-1]
		if refs, ok := funcRefs[k]; ok {
			add(refs)
		}
	}
	out := map[string]string{}
	text := func(fi fileInfo, n ast.Node) string {
		return string(fi.src[fset.Position(n.Pos()).Offset:fset.Position(n.End()).Offset])
	}
	for _, fi := range files {
		var lines []string
		for _, d := range fi.f.Decls {
			g, ok := d.(*ast.GenDecl)
			if !ok || g.Tok != token.VAR {
				continue
			}
			for _, sp := range g.Specs {
				vs := sp.(*ast.ValueSpec)
				skip := false
				var names []string
				for _, n := range vs.Names {
					if n.Name == "_" || reach[n.Name] {
						skip = true
					}
					names = append(names, n.Name)
				}
				if skip {
					continue
				}
				switch {
				case len(vs.Values) == 0 && vs.Type != nil:
					for _, n := range names {
						lines = append(lines, fmt.Sprintf("\t%s = *new(%s)", n, text(fi, vs.Type)))
					}
				case len(vs.Values) == len(names):
					for i, n := range names {
						lines = append(lines, fmt.Sprintf("\t%s = %s", n, text(fi, vs.Values[i])))
					}
				case len(vs.Values) == 1:
					lines = append(lines, fmt.Sprintf("\t%s = %s", strings.Join(names, ", "), text(fi, vs.Values[0])))
				}
			}
		}
		if len(lines) > 0 {
			out[fi.name] = "func " + resetFuncName(fi.name) + "() {\n" + strings.Join(lines, "\n") + "\n}\n"
		}
	}
	return out, pkg, nil
}

func main() {
	flag.Parse()
	if flag.NArg() != 1 {
		fatal("usage: instrument [-dense files] <package dir>")
	}
	dir := flag.Arg(0)
	ents, err := os.ReadDir(dir)
	if err != nil {
		fatal("%v", err)
	}
	denseSet := map[string]bool{}
	for _, f := range strings.Split(*dense, ",") {
		if f != "" {
			denseSet[f] = true
		}
	}
	var sites []string
	resets := map[string]string{} // file -> reset function appended to it
	pkgName := ""
	if *globals {
		var err error
		resets, pkgName, err = globalResets(dir, ents)
		if err != nil {
			fatal("globals: %v", err)
		}
	}
	for _, e := range ents {
		name := e.Name()
		if e.IsDir() || !strings.HasSuffix(name, ".go") || strings.HasSuffix(name, "_test.go") {
			continue
		}
		path := filepath.Join(dir, name)
		src, err := os.ReadFile(path)
		if err != nil {
			fatal("%v", err)
		}
		if bytes.Contains(src, []byte("//verif:noinstrument")) {
			continue
		}
		if fn := resets[name]; fn != "" {
			src = append(src, []byte("\n"+fn)...)
		}
		out, fsites, err := instrumentFile(name, src, denseSet[name])
		if err != nil {
			fatal("%s: %v", name, err)
		}
		sites = append(sites, fsites...)
		if err := os.WriteFile(path, out, 0o644); err != nil {
			fatal("%v", err)
		}
	}
	if *globals {
		var names []string
		for f := range resets {
			names = append(names, f)
		}
		sort.Strings(names)
		var sb strings.Builder
		sb.WriteString("//verif:noinstrument\n\npackage " + pkgName + "\n\n")
		sb.WriteString("// VerifResetGlobals gives every package-level variable that no init function (and no\n")
		sb.WriteString("// initialiser of another variable) can reach its initial value again. The simulator calls\n")
		sb.WriteString("// it at the start of every run: state kept in package-level variables would otherwise\n")
		sb.WriteString("// carry over from one run to the next inside a worker process.\n")
		sb.WriteString("func VerifResetGlobals() {\n")
		for _, f := range names {
			sb.WriteString("\t" + resetFuncName(f) + "()\n")
		}
		sb.WriteString("}\n")
		if err := os.WriteFile(filepath.Join(dir, "verif_globals.go"), []byte(sb.String()), 0o644); err != nil {
			fatal("%v", err)
		}
	}
	sort.Strings(sites)
	if err := os.WriteFile(filepath.Join(dir, "verif_sites.txt"), []byte(strings.Join(sites, "\n")+"\n"), 0o644); err != nil {
		fatal("%v", err)
	}
}

type rw struct {
	fset     *token.FileSet
	file     string
	n        int
	sites    []string
	usesRT   bool
	usesNet  bool
	dense    bool
	imports  map[string]string // local name -> path
	err      error
	shadowed map[string]int
}

func (r *rw) site(pos token.Pos, kind string) string {
	p := r.fset.Position(pos)
	s := fmt.Sprintf("%s:%d:%s", r.file, p.Line, kind)
	r.sites = append(r.sites, s)
	return s
}

func (r *rw) tmp(prefix string) string {
	r.n++
	return fmt.Sprintf("__%s%d", prefix, r.n)
}

func instrumentFile(name string, src []byte, dense bool) ([]byte, []string, error) {
	fset := token.NewFileSet()
	f, err := parser.ParseFile(fset, name, src, parser.ParseComments)
	if err != nil {
		return nil, nil, err
	}
	// keep build constraints
	var header []string
	for _, cg := range f.Comments {
		if cg.Pos() >= f.Package {
			break
		}
		for _, c := range cg.List {
			if strings.HasPrefix(c.Text, "//go:build") || strings.HasPrefix(c.Text, "// +build") {
				header = append(header, c.Text)
			}
		}
	}
	r := &rw{fset: fset, file: name, dense: dense, imports: map[string]string{}, shadowed: map[string]int{}}
	for _, im := range f.Imports {
		p, _ := strconv.Unquote(im.Path.Value)
		local := filepath.Base(p)
		if im.Name != nil {
			local = im.Name.Name
		}
		r.imports[local] = p
	}

	// 1. selectors and composite literals (whole file)
	r.rewriteSelectors(f)

	// 2. statement-level rewriting of every function body, each exactly once
	var bodies []*ast.BlockStmt
	ast.Inspect(f, func(n ast.Node) bool {
		switch x := n.(type) {
		case *ast.FuncDecl:
			if x.Body != nil {
				bodies = append(bodies, x.Body)
			}
		case *ast.FuncLit:
			bodies = append(bodies, x.Body)
		}
		return true
	})
	for _, b := range bodies {
		b.List = r.list(b.List)
	}
	if r.err != nil {
		return nil, nil, r.err
	}

	// 3. imports and keep-alives
	if r.usesRT {
		addImport(f, "simrt", "verifsim/simrt")
	}
	if r.usesNet {
		addImport(f, "simnet", "verifsim/simnet")
	}
	keep := map[string]string{"context": "context.Context", "sync": "sync.Locker", "net": "net.Addr", "crypto/tls": "*tls.Config", "github.com/gorilla/websocket": "*websocket.Conn", "time": "time.Duration"}
	for local, path := range r.imports {
		if typ, ok := keep[path]; ok {
			typ = strings.Replace(typ, filepath.Base(path)+".", local+".", 1)
			expr, err := parser.ParseExpr(typ)
			if err != nil {
				return nil, nil, err
			}
			f.Decls = append(f.Decls, &ast.GenDecl{Tok: token.VAR, Specs: []ast.Spec{&ast.ValueSpec{Names: []*ast.Ident{ast.NewIdent("_")}, Type: expr}}})
		}
	}

	// 4. structural print
	f.Comments = nil
	clearPos(f)
	var buf bytes.Buffer
	for _, h := range header {
		buf.WriteString(h + "\n")
	}
	if len(header) > 0 {
		buf.WriteString("\n")
	}
	cfg := printer.Config{Mode: printer.UseSpaces | printer.TabIndent, Tabwidth: 8}
	if err := cfg.Fprint(&buf, token.NewFileSet(), f); err != nil {
		return nil, nil, err
	}
	// the result must parse
	if _, err := parser.ParseFile(token.NewFileSet(), name, buf.Bytes(), 0); err != nil {
		return nil, nil, fmt.Errorf("instrumented output does not parse: %v", err)
	}
	return buf.Bytes(), r.sites, nil
}

func addImport(f *ast.File, name, path string) {
	for _, im := range f.Imports {
		if p, _ := strconv.Unquote(im.Path.Value); p == path {
			return
		}
	}
	spec := &ast.ImportSpec{Name: ast.NewIdent(name), Path: &ast.BasicLit{Kind: token.STRING, Value: strconv.Quote(path)}}
	decl := &ast.GenDecl{Tok: token.IMPORT, Specs: []ast.Spec{spec}}
	f.Decls = append([]ast.Decl{decl}, f.Decls...)
	f.Imports = append(f.Imports, spec)
}

// ---- selector rewriting ----

func (r *rw) pkgIs(x ast.Expr, path string) bool {
	id, ok := x.(*ast.Ident)
	if !ok {
		return false
	}
	if r.shadowed[id.Name] > 0 {
		return false
	}
	return r.imports[id.Name] == path
}

func (r *rw) rewriteSelectors(f *ast.File) {
	var visit func(n ast.Node) bool
	withShadow := func(ft *ast.FuncType, body *ast.BlockStmt) {
		var names []string
		collect := func(fl *ast.FieldList) {
			if fl == nil {
				return
			}
			for _, fd := range fl.List {
				for _, nm := range fd.Names {
					if _, isPkg := r.imports[nm.Name]; isPkg {
						names = append(names, nm.Name)
					}
				}
			}
		}
		collect(ft.Params)
		collect(ft.Results)
		// parameter types are resolved outside the shadow
		ast.Inspect(ft, visit)
		for _, nm := range names {
			r.shadowed[nm]++
		}
		if body != nil {
			ast.Inspect(body, visit)
		}
		for _, nm := range names {
			r.shadowed[nm]--
		}
	}
	visit = func(n ast.Node) bool {
		switch x := n.(type) {
		case *ast.FuncDecl:
			if x.Recv != nil {
				ast.Inspect(x.Recv, visit)
			}
			withShadow(x.Type, x.Body)
			return false
		case *ast.FuncLit:
			withShadow(x.Type, x.Body)
			return false
		case *ast.SelectorExpr:
			switch {
			case r.pkgIs(x.X, "sync") && (x.Sel.Name == "Mutex" || x.Sel.Name == "RWMutex" || x.Sel.Name == "Once" ||
				x.Sel.Name == "WaitGroup" || x.Sel.Name == "Cond" || x.Sel.Name == "NewCond" || x.Sel.Name == "Map" || x.Sel.Name == "Pool"):
				x.X = ast.NewIdent("simrt")
				r.usesRT = true
			case r.pkgIs(x.X, "sync") && (x.Sel.Name == "OnceFunc" || x.Sel.Name == "OnceValue" || x.Sel.Name == "OnceValues"):
				r.err = fmt.Errorf("unsupported synchronisation helper sync.%s", x.Sel.Name)
			case r.pkgIs(x.X, "context") && (x.Sel.Name == "WithTimeout" || x.Sel.Name == "WithDeadline"):
				// deadline expiry becomes a task the scheduler orders against whatever else wakes at that instant
				x.X = ast.NewIdent("simrt")
				r.usesRT = true
			case r.pkgIs(x.X, "net") && x.Sel.Name == "TCPConn":
				// code that reaches for the concrete TCP connection (CloseWrite, SetLinger, ...) gets the simulated one
				x.X = ast.NewIdent("simnet")
				x.Sel = ast.NewIdent("Conn")
				r.usesNet = true
			case r.pkgIs(x.X, "net") && (x.Sel.Name == "Dialer" || x.Sel.Name == "ListenConfig"):
				x.X = ast.NewIdent("simnet")
				r.usesNet = true
			case r.pkgIs(x.X, "net") && (x.Sel.Name == "Dial" || x.Sel.Name == "Listen" || x.Sel.Name == "DialTimeout" || x.Sel.Name == "DialTCP" || x.Sel.Name == "ListenTCP"):
				r.err = fmt.Errorf("unsupported direct use of net.%s", x.Sel.Name)
			case r.pkgIs(x.X, "crypto/tls") && x.Sel.Name == "Conn":
				x.X = ast.NewIdent("simnet")
				x.Sel = ast.NewIdent("TLSConn")
				r.usesNet = true
			case r.pkgIs(x.X, "crypto/tls") && x.Sel.Name == "Server":
				x.X = ast.NewIdent("simnet")
				x.Sel = ast.NewIdent("TLSServer")
				r.usesNet = true
			case r.pkgIs(x.X, "crypto/tls") && x.Sel.Name == "Client":
				x.X = ast.NewIdent("simnet")
				x.Sel = ast.NewIdent("TLSClient")
				r.usesNet = true
			case r.pkgIs(x.X, "crypto/tls") && (x.Sel.Name == "Dial" || x.Sel.Name == "Listen" || x.Sel.Name == "NewListener" || x.Sel.Name == "DialWithDialer"):
				r.err = fmt.Errorf("unsupported direct use of tls.%s", x.Sel.Name)
			}
		case *ast.CallExpr:
			// srv.ServeTLS(listener, "", "") -> srv.Serve(simnet.TLSListener(listener, srv.TLSConfig))
			if se, ok := x.Fun.(*ast.SelectorExpr); ok && se.Sel.Name == "ServeTLS" && len(x.Args) == 3 {
				if a, ok := x.Args[1].(*ast.BasicLit); ok && a.Value == `""` {
					if b, ok := x.Args[2].(*ast.BasicLit); ok && b.Value == `""` {
						se.Sel = ast.NewIdent("Serve")
						x.Args = []ast.Expr{&ast.CallExpr{
							Fun:  &ast.SelectorExpr{X: ast.NewIdent("simnet"), Sel: ast.NewIdent("TLSListener")},
							Args: []ast.Expr{x.Args[0], &ast.SelectorExpr{X: se.X, Sel: ast.NewIdent("TLSConfig")}},
						}}
						r.usesNet = true
					}
				}
			}
		case *ast.CompositeLit:
			if se, ok := x.Type.(*ast.SelectorExpr); ok && r.pkgIs(se.X, "github.com/gorilla/websocket") && se.Sel.Name == "Dialer" {
				has, sim := false, false
				for _, el := range x.Elts {
					if kv, ok := el.(*ast.KeyValueExpr); ok {
						if id, ok := kv.Key.(*ast.Ident); ok && (id.Name == "NetDialContext" || id.Name == "NetDial") {
							has = true
							if se, ok := kv.Value.(*ast.SelectorExpr); ok {
								if xi, ok := se.X.(*ast.Ident); ok && xi.Name == "simnet" {
									sim = true
								}
							}
						}
					}
				}
				if has && !sim {
					r.err = fmt.Errorf("websocket.Dialer literal already sets NetDial*")
				}
				if !has {
					x.Elts = append(x.Elts, &ast.KeyValueExpr{Key: ast.NewIdent("NetDialContext"), Value: &ast.SelectorExpr{X: ast.NewIdent("simnet"), Sel: ast.NewIdent("DialContext")}})
					r.usesNet = true
				}
			}
		}
		return true
	}
	ast.Inspect(f, visit)
}

// ---- statement rewriting ----

func (r *rw) list(in []ast.Stmt) []ast.Stmt {
	var out []ast.Stmt
	for _, s := range in {
		if r.dense {
			switch s.(type) {
			case *ast.DeclStmt, *ast.EmptyStmt, *ast.LabeledStmt:
			default:
				out = append(out, r.yieldStmt("Yield", r.site(s.Pos(), "stmt")))
			}
		}
		out = append(out, r.stmt(s)...)
	}
	return out
}

func (r *rw) yieldStmt(fn, site string) ast.Stmt {
	r.usesRT = true
	return &ast.ExprStmt{X: &ast.CallExpr{
		Fun:  &ast.SelectorExpr{X: ast.NewIdent("simrt"), Sel: ast.NewIdent(fn)},
		Args: []ast.Expr{&ast.BasicLit{Kind: token.STRING, Value: strconv.Quote(site)}},
	}}
}

func (r *rw) block(b *ast.BlockStmt) {
	if b != nil {
		b.List = r.list(b.List)
	}
}

// hasRecv reports whether the expression tree (not descending into function literals)
// contains a channel receive.
func hasRecv(n ast.Node) bool {
	found := false
	ast.Inspect(n, func(x ast.Node) bool {
		switch u := x.(type) {
		case *ast.FuncLit:
			return false
		case *ast.UnaryExpr:
			if u.Op == token.ARROW {
				found = true
			}
		}
		return !found
	})
	return found
}

func hasBlockingCall(n ast.Node) bool {
	found := false
	ast.Inspect(n, func(x ast.Node) bool {
		switch u := x.(type) {
		case *ast.FuncLit:
			return false
		case *ast.CallExpr:
			if se, ok := u.Fun.(*ast.SelectorExpr); ok && (se.Sel.Name == "Sleep" || se.Sel.Name == "Wait") {
				found = true
			}
		}
		return !found
	})
	return found
}

func hasCall(n ast.Node) bool {
	found := false
	ast.Inspect(n, func(x ast.Node) bool {
		if _, ok := x.(*ast.CallExpr); ok {
			found = true
		}
		return !found
	})
	return found
}

func (r *rw) stmt(s ast.Stmt) []ast.Stmt {
	switch x := s.(type) {
	case *ast.BlockStmt:
		r.block(x)
		return []ast.Stmt{x}
	case *ast.IfStmt:
		var pre []ast.Stmt
		if x.Init != nil && (hasRecv(x.Init) || hasBlockingCall(x.Init)) {
			pre = append(pre, r.yieldStmt("Yield", r.site(x.Pos(), "if-init")))
		}
		if x.Cond != nil && hasRecv(x.Cond) {
			pre = append(pre, r.yieldStmt("Yield", r.site(x.Pos(), "if-cond")))
		}
		r.block(x.Body)
		if x.Else != nil {
			el := r.stmt(x.Else)
			if len(el) == 1 {
				x.Else = el[0]
			} else {
				x.Else = &ast.BlockStmt{List: el}
			}
		}
		return append(pre, x)
	case *ast.ForStmt:
		r.block(x.Body)
		x.Body.List = append([]ast.Stmt{r.yieldStmt("Yield", r.site(x.Pos(), "loop"))}, x.Body.List...)
		return []ast.Stmt{x}
	case *ast.RangeStmt:
		r.block(x.Body)
		if hasCall(x.Body) || hasRecv(x.Body) {
			x.Body.List = append([]ast.Stmt{r.yieldStmt("Yield", r.site(x.Pos(), "loop"))}, x.Body.List...)
		}
		return []ast.Stmt{x}
	case *ast.SwitchStmt:
		for _, c := range x.Body.List {
			cc := c.(*ast.CaseClause)
			cc.Body = r.list(cc.Body)
		}
		return []ast.Stmt{x}
	case *ast.TypeSwitchStmt:
		for _, c := range x.Body.List {
			cc := c.(*ast.CaseClause)
			cc.Body = r.list(cc.Body)
		}
		return []ast.Stmt{x}
	case *ast.SelectStmt:
		return r.selectStmt(x, nil)
	case *ast.LabeledStmt:
		if sel, ok := x.Stmt.(*ast.SelectStmt); ok {
			return r.selectStmt(sel, x.Label)
		}
		inner := r.stmt(x.Stmt)
		if len(inner) == 1 {
			x.Stmt = inner[0]
			return []ast.Stmt{x}
		}
		// the label must stay on the last statement (a loop keeps its single statement form)
		last := inner[len(inner)-1]
		x.Stmt = last
		return append(inner[:len(inner)-1], x)
	case *ast.GoStmt:
		return r.goStmt(x)
	case *ast.DeferStmt:
		return []ast.Stmt{x}
	case *ast.SendStmt:
		site := r.site(x.Pos(), "send")
		return []ast.Stmt{r.yieldStmt("Yield", site), x, r.yieldStmt("Woke", site+".woke")}
	case *ast.ReturnStmt:
		if hasRecv(x) || hasBlockingCall(x) {
			return []ast.Stmt{r.yieldStmt("Yield", r.site(x.Pos(), "return-blocking")), x}
		}
		return []ast.Stmt{x}
	case *ast.ExprStmt:
		if call, ok := x.X.(*ast.CallExpr); ok {
			if id, ok := call.Fun.(*ast.Ident); ok && id.Name == "close" && len(call.Args) == 1 {
				return []ast.Stmt{r.yieldStmt("Yield", r.site(x.Pos(), "close")), x}
			}
			if se, ok := call.Fun.(*ast.SelectorExpr); ok && se.Sel.Name == "Go" && len(call.Args) == 1 {
				if id, ok := se.X.(*ast.Ident); !ok || id.Name != "simrt" {
					r.usesRT = true
					site := r.site(x.Pos(), "eg.Go")
					call.Args[0] = &ast.CallExpr{
						Fun:  &ast.SelectorExpr{X: ast.NewIdent("simrt"), Sel: ast.NewIdent("WrapErrFunc")},
						Args: []ast.Expr{&ast.BasicLit{Kind: token.STRING, Value: strconv.Quote(site)}, call.Args[0]},
					}
					return []ast.Stmt{x}
				}
			}
		}
		return r.simple(x)
	case *ast.AssignStmt, *ast.DeclStmt, *ast.IncDecStmt:
		return r.simple(s)
	default:
		return []ast.Stmt{s}
	}
}

func (r *rw) simple(s ast.Stmt) []ast.Stmt {
	if hasRecv(s) {
		site := r.site(s.Pos(), "recv")
		return []ast.Stmt{r.yieldStmt("Yield", site), s, r.yieldStmt("Woke", site+".woke")}
	}
	if hasBlockingCall(s) {
		site := r.site(s.Pos(), "blocking-call")
		return []ast.Stmt{r.yieldStmt("Yield", site), s, r.yieldStmt("Woke", site+".woke")}
	}
	return []ast.Stmt{s}
}

func isInlineable(e ast.Expr) bool {
	switch x := e.(type) {
	case *ast.BasicLit, *ast.FuncLit:
		return true
	case *ast.Ident:
		return x.Name == "true" || x.Name == "false" || x.Name == "nil"
	case *ast.CompositeLit:
		return len(x.Elts) == 0
	}
	return false
}

func (r *rw) goStmt(g *ast.GoStmt) []ast.Stmt {
	r.usesRT = true
	site := r.site(g.Pos(), "go")
	call := g.Call
	siteLit := &ast.BasicLit{Kind: token.STRING, Value: strconv.Quote(site)}
	simGo := func(fn ast.Expr) ast.Stmt {
		return &ast.ExprStmt{X: &ast.CallExpr{Fun: &ast.SelectorExpr{X: ast.NewIdent("simrt"), Sel: ast.NewIdent("Go")}, Args: []ast.Expr{siteLit, fn}}}
	}
	if fl, ok := call.Fun.(*ast.FuncLit); ok && len(call.Args) == 0 && fl.Type.Results == nil {
		return []ast.Stmt{simGo(fl)}
	}
	var pre []ast.Stmt
	fn := call.Fun
	if _, ok := fn.(*ast.Ident); !ok {
		name := r.tmp("f")
		pre = append(pre, &ast.AssignStmt{Lhs: []ast.Expr{ast.NewIdent(name)}, Tok: token.DEFINE, Rhs: []ast.Expr{fn}})
		fn = ast.NewIdent(name)
	}
	var args []ast.Expr
	for _, a := range call.Args {
		if isInlineable(a) {
			args = append(args, a)
			continue
		}
		name := r.tmp("a")
		pre = append(pre, &ast.AssignStmt{Lhs: []ast.Expr{ast.NewIdent(name)}, Tok: token.DEFINE, Rhs: []ast.Expr{a}})
		args = append(args, ast.NewIdent(name))
	}
	inner := &ast.CallExpr{Fun: fn, Args: args, Ellipsis: call.Ellipsis}
	wrapper := &ast.FuncLit{Type: &ast.FuncType{Params: &ast.FieldList{}}, Body: &ast.BlockStmt{List: []ast.Stmt{&ast.ExprStmt{X: inner}}}}
	pre = append(pre, simGo(wrapper))
	return []ast.Stmt{&ast.BlockStmt{List: pre}}
}

type selCase struct {
	idx     int
	send    bool
	chName  string
	val     ast.Expr // send value (inline or temp ident)
	rName   string   // recv temp ("" when nothing is bound)
	okName  string
	bind    ast.Stmt // binding statement placed at the head of the body
	body    []ast.Stmt
	comm    ast.Stmt
	isDeflt bool
}

func (r *rw) selectStmt(sel *ast.SelectStmt, label *ast.Ident) []ast.Stmt {
	r.usesRT = true
	site := r.site(sel.Pos(), "select")
	if len(sel.Body.List) == 0 {
		// select {} blocks forever
		return []ast.Stmt{r.yieldStmt("Yield", site), sel}
	}
	var pre []ast.Stmt
	var cases []*selCase
	deflt := -1
	for i, c := range sel.Body.List {
		cc := c.(*ast.CommClause)
		sc := &selCase{idx: i, body: r.list(cc.Body)}
		cases = append(cases, sc)
		if cc.Comm == nil {
			sc.isDeflt = true
			deflt = i
			continue
		}
		define := func(name string, e ast.Expr) {
			pre = append(pre, &ast.AssignStmt{Lhs: []ast.Expr{ast.NewIdent(name)}, Tok: token.DEFINE, Rhs: []ast.Expr{e}})
		}
		switch comm := cc.Comm.(type) {
		case *ast.SendStmt:
			sc.send = true
			sc.chName = r.tmp("c")
			define(sc.chName, comm.Chan)
			if isInlineable(comm.Value) {
				sc.val = comm.Value
			} else {
				v := r.tmp("v")
				define(v, comm.Value)
				sc.val = ast.NewIdent(v)
			}
		case *ast.ExprStmt:
			u, ok := comm.X.(*ast.UnaryExpr)
			if !ok || u.Op != token.ARROW {
				r.err = fmt.Errorf("%s: unsupported select case", site)
				return []ast.Stmt{sel}
			}
			sc.chName = r.tmp("c")
			define(sc.chName, u.X)
		case *ast.AssignStmt:
			if len(comm.Rhs) != 1 {
				r.err = fmt.Errorf("%s: unsupported select case", site)
				return []ast.Stmt{sel}
			}
			u, ok := comm.Rhs[0].(*ast.UnaryExpr)
			if !ok || u.Op != token.ARROW {
				r.err = fmt.Errorf("%s: unsupported select case", site)
				return []ast.Stmt{sel}
			}
			sc.chName = r.tmp("c")
			define(sc.chName, u.X)
			sc.rName = r.tmp("r")
			sc.okName = r.tmp("ok")
			pre = append(pre, &ast.AssignStmt{
				Lhs: []ast.Expr{ast.NewIdent(sc.rName), ast.NewIdent(sc.okName)}, Tok: token.DEFINE,
				Rhs: []ast.Expr{&ast.CallExpr{Fun: &ast.SelectorExpr{X: ast.NewIdent("simrt"), Sel: ast.NewIdent("Zero")}, Args: []ast.Expr{ast.NewIdent(sc.chName)}}},
			})
			pre = append(pre, &ast.AssignStmt{
				Lhs: []ast.Expr{ast.NewIdent("_"), ast.NewIdent("_")}, Tok: token.ASSIGN,
				Rhs: []ast.Expr{ast.NewIdent(sc.rName), ast.NewIdent(sc.okName)},
			})
			rhs := []ast.Expr{ast.NewIdent(sc.rName)}
			if len(comm.Lhs) == 2 {
				rhs = append(rhs, ast.NewIdent(sc.okName))
			}
			allBlank := true
			for _, l := range comm.Lhs {
				if id, ok := l.(*ast.Ident); !ok || id.Name != "_" {
					allBlank = false
				}
			}
			if !allBlank {
				tok := comm.Tok
				sc.bind = &ast.AssignStmt{Lhs: comm.Lhs, Tok: tok, Rhs: rhs}
			}
		default:
			r.err = fmt.Errorf("%s: unsupported select case", site)
			return []ast.Stmt{sel}
		}
	}
	selName := r.tmp("sel")
	setSel := func(i int) ast.Stmt {
		return &ast.AssignStmt{Lhs: []ast.Expr{ast.NewIdent(selName)}, Tok: token.ASSIGN, Rhs: []ast.Expr{&ast.BasicLit{Kind: token.INT, Value: strconv.Itoa(i)}}}
	}
	comm := func(sc *selCase) ast.Stmt {
		if sc.send {
			return &ast.SendStmt{Chan: ast.NewIdent(sc.chName), Value: sc.val}
		}
		recv := &ast.UnaryExpr{Op: token.ARROW, X: ast.NewIdent(sc.chName)}
		if sc.rName == "" {
			return &ast.ExprStmt{X: recv}
		}
		return &ast.AssignStmt{Lhs: []ast.Expr{ast.NewIdent(sc.rName), ast.NewIdent(sc.okName)}, Tok: token.ASSIGN, Rhs: []ast.Expr{recv}}
	}
	nComm := 0
	for _, sc := range cases {
		if !sc.isDeflt {
			nComm++
		}
	}
	var out []ast.Stmt
	out = append(out, r.yieldStmt("Yield", site))
	out = append(out, pre...)
	// __sel := -1
	out = append(out, &ast.AssignStmt{Lhs: []ast.Expr{ast.NewIdent(selName)}, Tok: token.DEFINE, Rhs: []ast.Expr{&ast.UnaryExpr{Op: token.SUB, X: &ast.BasicLit{Kind: token.INT, Value: "1"}}}})
	if nComm > 0 {
		// polling loop
		kName := r.tmp("k")
		var pollCases []ast.Stmt
		pi := 0
		for _, sc := range cases {
			if sc.isDeflt {
				continue
			}
			poll := &ast.SelectStmt{Body: &ast.BlockStmt{List: []ast.Stmt{
				&ast.CommClause{Comm: comm(sc), Body: []ast.Stmt{setSel(sc.idx)}},
				&ast.CommClause{},
			}}}
			pollCases = append(pollCases, &ast.CaseClause{List: []ast.Expr{&ast.BasicLit{Kind: token.INT, Value: strconv.Itoa(pi)}}, Body: []ast.Stmt{poll}})
			pi++
		}
		loop := &ast.RangeStmt{
			Key: ast.NewIdent("_"), Value: ast.NewIdent(kName), Tok: token.DEFINE,
			X: &ast.CallExpr{Fun: &ast.SelectorExpr{X: ast.NewIdent("simrt"), Sel: ast.NewIdent("Perm")}, Args: []ast.Expr{
				&ast.BasicLit{Kind: token.STRING, Value: strconv.Quote(site)}, &ast.BasicLit{Kind: token.INT, Value: strconv.Itoa(nComm)}}},
			Body: &ast.BlockStmt{List: []ast.Stmt{
				&ast.SwitchStmt{Tag: ast.NewIdent(kName), Body: &ast.BlockStmt{List: pollCases}},
				&ast.IfStmt{Cond: &ast.BinaryExpr{X: ast.NewIdent(selName), Op: token.GEQ, Y: &ast.BasicLit{Kind: token.INT, Value: "0"}}, Body: &ast.BlockStmt{List: []ast.Stmt{&ast.BranchStmt{Tok: token.BREAK}}}},
			}},
		}
		out = append(out, loop)
	}
	// fallback
	var fb []ast.Stmt
	if deflt >= 0 {
		fb = []ast.Stmt{setSel(deflt)}
	} else {
		var clauses []ast.Stmt
		for _, sc := range cases {
			clauses = append(clauses, &ast.CommClause{Comm: comm(sc), Body: []ast.Stmt{setSel(sc.idx)}})
		}
		fb = []ast.Stmt{&ast.SelectStmt{Body: &ast.BlockStmt{List: clauses}}, r.yieldStmt("Woke", site+".woke")}
	}
	out = append(out, &ast.IfStmt{Cond: &ast.BinaryExpr{X: ast.NewIdent(selName), Op: token.LSS, Y: &ast.BasicLit{Kind: token.INT, Value: "0"}}, Body: &ast.BlockStmt{List: fb}})
	// dispatch
	var disp []ast.Stmt
	for _, sc := range cases {
		body := sc.body
		if sc.bind != nil {
			body = append([]ast.Stmt{sc.bind}, body...)
		}
		disp = append(disp, &ast.CaseClause{List: []ast.Expr{&ast.BasicLit{Kind: token.INT, Value: strconv.Itoa(sc.idx)}}, Body: body})
	}
	disp = append(disp, &ast.CaseClause{Body: []ast.Stmt{&ast.ExprStmt{X: &ast.CallExpr{Fun: ast.NewIdent("panic"), Args: []ast.Expr{&ast.BasicLit{Kind: token.STRING, Value: strconv.Quote("simrt: bad select index")}}}}}})
	var sw ast.Stmt = &ast.SwitchStmt{Tag: ast.NewIdent(selName), Body: &ast.BlockStmt{List: disp}}
	if label != nil {
		sw = &ast.LabeledStmt{Label: label, Stmt: sw}
	}
	out = append(out, sw)
	return []ast.Stmt{&ast.BlockStmt{List: out}}
}

// ---- position clearing ----

var posType = reflect.TypeOf(token.NoPos)

func clearPos(root ast.Node) {
	ast.Inspect(root, func(n ast.Node) bool {
		if n == nil {
			return false
		}
		v := reflect.ValueOf(n)
		if v.Kind() != reflect.Ptr || v.IsNil() {
			return true
		}
		e := v.Elem()
		if e.Kind() != reflect.Struct {
			return true
		}
		keep := map[string]bool{}
		switch n.(type) {
		case *ast.CallExpr:
			keep["Ellipsis"] = true
		case *ast.GenDecl:
			keep["Lparen"] = true
			keep["Rparen"] = true
		case *ast.TypeSpec:
			keep["Assign"] = true
		}
		for i := 0; i < e.NumField(); i++ {
			f := e.Field(i)
			if f.Type() == posType && f.CanSet() {
				if keep[e.Type().Field(i).Name] && f.Int() != 0 {
					f.SetInt(1)
				} else {
					f.SetInt(0)
				}
			}
		}
		return true
	})
}
