package simrt

import (
	"math/rand/v2"
	"sync"
)

// The types below replace sync.Mutex, sync.RWMutex and sync.Once inside the instrumented
// package. Without a running simulation they are the real primitives.

func active() *Sched {
	s := cur.Load()
	if s == nil || s.dead.Load() {
		return nil
	}
	return s
}

func (s *Sched) tornDown() bool {
	s.mu.Lock()
	defer s.mu.Unlock()
	return s.teardown
}

func (s *Sched) inspecting() bool {
	s.mu.Lock()
	defer s.mu.Unlock()
	return s.inspect
}

// Mutex is a drop-in for sync.Mutex.
type Mutex struct {
	real    sync.Mutex
	mu      sync.Mutex
	sim     bool // acquired through the simulator
	held    bool
	waiters []*Waiter
}

func (m *Mutex) wakeAll() {
	ws := m.waiters
	m.waiters = nil
	for _, w := range ws {
		w.Fire()
	}
}

func (m *Mutex) Lock() {
	s := active()
	if s == nil {
		m.real.Lock()
		return
	}
	if onRoot(s) {
		m.mu.Lock()
		busy := m.held
		if !busy {
			m.held = true
		}
		m.mu.Unlock()
		if busy {
			panic(inspectBusy{})
		}
		return
	}
	Yield("mutex.lock")
	for {
		m.mu.Lock()
		if !m.held || s.tornDown() {
			m.held = true
			m.mu.Unlock()
			return
		}
		w := NewWaiter()
		m.waiters = append(m.waiters, w)
		m.mu.Unlock()
		probe("mutex-contended")
		w.Wait("mutex.wait")
	}
}

// TryLock mirrors sync.Mutex.TryLock.
func (m *Mutex) TryLock() bool {
	s := active()
	if s == nil {
		return m.real.TryLock()
	}
	if !onRoot(s) {
		Yield("mutex.trylock")
	}
	m.mu.Lock()
	defer m.mu.Unlock()
	if m.held {
		return false
	}
	m.held = true
	return true
}

func (m *Mutex) Unlock() {
	s := active()
	if s == nil {
		m.mu.Lock()
		wasSim := m.held
		m.held = false
		m.mu.Unlock()
		if !wasSim {
			m.real.Unlock()
		}
		return
	}
	m.mu.Lock()
	if !m.held && !s.tornDown() && !s.inspecting() {
		m.mu.Unlock()
		panic("sync: unlock of unlocked mutex")
	}
	m.held = false
	m.wakeAll()
	m.mu.Unlock()
}

// RWMutex is a drop-in for sync.RWMutex with the same writer preference.
type RWMutex struct {
	real     sync.RWMutex
	mu       sync.Mutex
	readers  int
	writer   bool
	wwaiting int
	waiters  []*Waiter
}

func (m *RWMutex) wakeAll() {
	ws := m.waiters
	m.waiters = nil
	for _, w := range ws {
		w.Fire()
	}
}

func (m *RWMutex) RLock() {
	s := active()
	if s == nil {
		m.real.RLock()
		return
	}
	if onRoot(s) {
		m.mu.Lock()
		busy := m.writer
		if !busy {
			m.readers++
		}
		m.mu.Unlock()
		if busy {
			panic(inspectBusy{})
		}
		return
	}
	Yield("rwmutex.rlock")
	for {
		m.mu.Lock()
		if (!m.writer && m.wwaiting == 0) || s.tornDown() {
			m.readers++
			m.mu.Unlock()
			return
		}
		w := NewWaiter()
		m.waiters = append(m.waiters, w)
		m.mu.Unlock()
		probe("rwmutex-contended")
		w.Wait("rwmutex.rwait")
	}
}

func (m *RWMutex) RUnlock() {
	s := active()
	if s == nil {
		m.mu.Lock()
		sim := m.readers > 0
		if sim {
			m.readers--
		}
		m.mu.Unlock()
		if !sim {
			m.real.RUnlock()
		}
		return
	}
	m.mu.Lock()
	if m.readers <= 0 && !s.tornDown() && !s.inspecting() {
		m.mu.Unlock()
		panic("sync: RUnlock of unlocked RWMutex")
	}
	if m.readers > 0 {
		m.readers--
	}
	if m.readers == 0 {
		m.wakeAll()
	}
	m.mu.Unlock()
}

func (m *RWMutex) Lock() {
	s := active()
	if s == nil {
		m.real.Lock()
		return
	}
	if onRoot(s) {
		m.mu.Lock()
		busy := m.writer || m.readers > 0
		if !busy {
			m.writer = true
		}
		m.mu.Unlock()
		if busy {
			panic(inspectBusy{})
		}
		return
	}
	Yield("rwmutex.lock")
	m.mu.Lock()
	m.wwaiting++
	m.mu.Unlock()
	for {
		m.mu.Lock()
		if (!m.writer && m.readers == 0) || s.tornDown() {
			m.writer = true
			m.wwaiting--
			m.mu.Unlock()
			return
		}
		w := NewWaiter()
		m.waiters = append(m.waiters, w)
		m.mu.Unlock()
		probe("rwmutex-contended")
		w.Wait("rwmutex.wait")
	}
}

// TryLock mirrors sync.RWMutex.TryLock.
func (m *RWMutex) TryLock() bool {
	s := active()
	if s == nil {
		return m.real.TryLock()
	}
	if !onRoot(s) {
		Yield("rwmutex.trylock")
	}
	m.mu.Lock()
	defer m.mu.Unlock()
	if m.writer || m.readers > 0 {
		return false
	}
	m.writer = true
	return true
}

// TryRLock mirrors sync.RWMutex.TryRLock.
func (m *RWMutex) TryRLock() bool {
	s := active()
	if s == nil {
		return m.real.TryRLock()
	}
	if !onRoot(s) {
		Yield("rwmutex.tryrlock")
	}
	m.mu.Lock()
	defer m.mu.Unlock()
	if m.writer || m.wwaiting > 0 {
		return false
	}
	m.readers++
	return true
}

func (m *RWMutex) Unlock() {
	s := active()
	if s == nil {
		m.mu.Lock()
		sim := m.writer
		m.writer = false
		m.mu.Unlock()
		if !sim {
			m.real.Unlock()
		}
		return
	}
	m.mu.Lock()
	if !m.writer && !s.tornDown() && !s.inspecting() {
		m.mu.Unlock()
		panic("sync: Unlock of unlocked RWMutex")
	}
	m.writer = false
	m.wakeAll()
	m.mu.Unlock()
}

// Once is a drop-in for sync.Once.
type Once struct {
	real    sync.Once
	mu      sync.Mutex
	state   int // 0 new, 1 running, 2 done
	waiters []*Waiter
}

func (o *Once) Do(f func()) {
	s := active()
	if s == nil {
		o.mu.Lock()
		st := o.state
		o.mu.Unlock()
		if st == 2 {
			return
		}
		o.real.Do(f)
		return
	}
	Yield("once.do")
	for {
		o.mu.Lock()
		switch {
		case o.state == 2:
			o.mu.Unlock()
			return
		case o.state == 0:
			o.state = 1
			o.mu.Unlock()
			defer func() {
				o.mu.Lock()
				o.state = 2
				ws := o.waiters
				o.waiters = nil
				o.mu.Unlock()
				for _, w := range ws {
					w.Fire()
				}
			}()
			f()
			return
		default:
			if s.tornDown() {
				o.mu.Unlock()
				return
			}
			w := NewWaiter()
			o.waiters = append(o.waiters, w)
			o.mu.Unlock()
			probe("once-contended")
			w.Wait("once.wait")
		}
	}
}

// ---- select support ----

var permTable = map[int][][]int{}

func init() {
	for n := 2; n <= 5; n++ {
		var out [][]int
		var rec func(a []int, k int)
		rec = func(a []int, k int) {
			if k == len(a) {
				out = append(out, append([]int(nil), a...))
				return
			}
			for i := k; i < len(a); i++ {
				a[k], a[i] = a[i], a[k]
				rec(a, k+1)
				a[k], a[i] = a[i], a[k]
			}
		}
		base := make([]int, n)
		for i := range base {
			base[i] = i
		}
		rec(base, 0)
		permTable[n] = out
	}
}

// Perm returns the order in which the cases of a select are polled. Index 0 of the choice
// space is source order.
func Perm(site string, n int) []int {
	ident := make([]int, n)
	for i := range ident {
		ident[i] = i
	}
	s := active()
	if s == nil || n < 2 {
		return ident
	}
	if onRoot(s) || s.tornDown() {
		return ident
	}
	s.mu.Lock()
	tape := s.tape
	pct := s.cfg.PermIdent
	s.mu.Unlock()
	if n <= 5 {
		tab := permTable[n]
		k := tape.DrawWith(len(tab), func(r *rand.Rand) int {
			if r.IntN(100) < pct {
				return 0
			}
			return r.IntN(len(tab))
		})
		return tab[k]
	}
	// larger selects: a rotation
	k := tape.DrawWith(n, func(r *rand.Rand) int {
		if r.IntN(100) < pct {
			return 0
		}
		return r.IntN(n)
	})
	for i := range ident {
		ident[i] = (i + k) % n
	}
	return ident
}

// Zero returns the zero value of a channel's element type; the select rewrite uses it to
// declare typed temporaries without type information.
func Zero[T any](ch <-chan T) (T, bool) {
	var z T
	return z, false
}

// ZeroS is Zero for send-only channel expressions.
func ZeroS[T any](ch chan<- T) (T, bool) {
	var z T
	return z, false
}

// ---- probes ----

var (
	probeMu sync.Mutex
	probes  = map[string]int{}
)

func probe(name string) {
	probeMu.Lock()
	probes[name]++
	probeMu.Unlock()
}

// Probe counts a rare-condition hit.
func Probe(name string) { probe(name) }

// TakeProbes returns and resets the probe counters.
func TakeProbes() map[string]int {
	probeMu.Lock()
	defer probeMu.Unlock()
	p := probes
	probes = map[string]int{}
	return p
}
