// Package simrt is the deterministic scheduler of the lime-go simulator. Tasks are goroutines
// that park at yield points; exactly one is released per step, chosen from a tape. It runs
// inside a testing/synctest bubble, which supplies the fake clock and quiescence detection.
package simrt

import (
	"crypto/sha256"
	"encoding/hex"
	"fmt"
	"hash"
	"math/rand/v2"
	"runtime"
	"runtime/debug"
	"sort"
	"strconv"
	"strings"
	"sync"
	"sync/atomic"
	"testing"
	"testing/synctest"
	"time"
)

const (
	tsRunning = iota
	tsEligible
	tsBlocked
	tsDone
)

// Strategy selects the search-mode distribution of scheduling decisions.
type Strategy int

const (
	StratRandom Strategy = iota // uniform among candidates
	StratSticky                 // keep the running task with probability StickyPct/100
	StratPCT                    // random priorities with PCTDepth change points
	StratSeq                    // always candidate 0 (run-to-block, lowest id next)
)

// Config bounds and parametrises one run.
type Config struct {
	Tape        *Tape
	Strategy    Strategy
	StickyPct   int
	PCTDepth    int
	PermIdent   int           // percent of select polls that keep source order
	MaxSteps    int           // scheduler steps
	MaxSimTime  time.Duration // simulated time cap
	KeepLog     bool          // keep the full event log (replay, determinism test)
	AfterStep   func()        // invariant hook, runs on the scheduler goroutine between steps
	OnTeardown  func()        // closes the simulated network etc. before tasks are poisoned
	LivelockMin int           // steps at one simulated instant that count as a livelock observation
}

// PanicRec is a panic that escaped a task.
type PanicRec struct {
	Task  string
	Site  string
	Value string
	Stack string
}

// TaskInfo is the census entry of one task.
type TaskInfo struct {
	ID        string
	SpawnSite string
	State     string // running, eligible, blocked, native, done
	Site      string // last yield site
	Adopted   bool
}

// Result summarises a finished run.
type Result struct {
	Stop        string // main-done, step-cap, simtime-cap, panic, deadlock
	Steps       int
	SimTime     time.Duration
	Panics      []PanicRec
	EventHash   string
	Events      []string // first events (all of them with KeepLog)
	MaxSameTime int      // most scheduler steps taken at a single simulated instant
	Livelock    bool
	HotSites    map[string]int // site hit counts during the longest same-instant stretch (only when Livelock)
	Decisions   int            // scheduling decisions with >= 2 candidates
	Deviations  int            // of those, how many did not pick candidate 0
	Tasks       int
	BubbleErr   string // synctest panic text recovered after the run (deadlock / leaked goroutines)
	SitesHit    map[string]int
}

// Task is one scheduled goroutine.
type Task struct {
	ID        string
	SpawnSite string
	goid      uint64
	wake      chan struct{}
	state     int
	site      string
	nchild    int
	adopted   bool
	waiter    *Waiter
	prio      int
	tdYields  int    // scheduling points passed after the run was over (see parkEligible)
	Tag       string // free label set by the harness (e.g. which connection a task serves)
}

// Sched is the scheduler of one run.
type Sched struct {
	mu        sync.Mutex
	cfg       Config
	tape      *Tape
	byGoid    map[uint64]*Task
	all       []*Task
	current   *Task
	wakeCh    chan struct{}
	rootGoid  uint64
	steps     int
	stop      string
	mainDone  bool
	teardown  bool
	dead      atomic.Bool
	panics    []PanicRec
	start     time.Time
	h         hash.Hash
	events    []string
	adoptSeq  map[string]int
	sameTime  int
	lastTime  time.Duration
	maxSame   int
	hot       map[string]int
	livelock  bool
	decisions int
	devs      int
	pctPoints map[int]bool
	pctLow    int
	inspect   bool
	sitesHit  map[string]int
	hints     map[uint64]string
	gen       uint64
	reserved  map[string]int
	ctxSeq    int
}

var genCounter atomic.Uint64

// generation identifies the run: state kept by drop-in types across runs (a pool's free list)
// is discarded when it changes.
func (s *Sched) generation() uint64 { return s.gen }

var cur atomic.Pointer[Sched]

// Active reports whether a simulation is running.
func Active() bool { return cur.Load() != nil }

func goid() uint64 {
	var buf [40]byte
	n := runtime.Stack(buf[:], false)
	// "goroutine 123 ["
	var id uint64
	for i := 10; i < n; i++ {
		c := buf[i]
		if c < '0' || c > '9' {
			break
		}
		id = id*10 + uint64(c-'0')
	}
	return id
}

// Now returns simulated time elapsed since the start of the run.
func Now() time.Duration {
	s := cur.Load()
	if s == nil {
		return 0
	}
	return time.Since(s.start)
}

// Stopping reports whether the run is over (budget exhausted, panic, main returned): whatever
// leftover code observes from then on is not an observation of the system.
func Stopping() bool {
	s := cur.Load()
	if s == nil {
		return true
	}
	if s.dead.Load() {
		return true
	}
	s.mu.Lock()
	defer s.mu.Unlock()
	return s.teardown || s.stop != ""
}

// Step returns the number of scheduler steps taken so far (a global event sequence number).
func Step() int {
	s := cur.Load()
	if s == nil {
		return 0
	}
	s.mu.Lock()
	defer s.mu.Unlock()
	return s.steps
}

// Run executes main as the root task of a fresh simulation inside a synctest bubble and
// returns when main has returned or a budget is exhausted.
func Run(t *testing.T, cfg Config, main func()) (res Result) {
	if cfg.MaxSteps == 0 {
		cfg.MaxSteps = 200000
	}
	if cfg.MaxSimTime == 0 {
		cfg.MaxSimTime = time.Hour
	}
	if cfg.LivelockMin == 0 {
		cfg.LivelockMin = 20000
	}
	if cfg.PermIdent == 0 {
		cfg.PermIdent = 50
	}
	var s *Sched
	func() {
		defer func() {
			if r := recover(); r != nil {
				res.BubbleErr = fmt.Sprint(r)
			}
		}()
		synctest.Test(t, func(t *testing.T) {
			s = &Sched{
				cfg:      cfg,
				tape:     cfg.Tape,
				byGoid:   map[uint64]*Task{},
				wakeCh:   make(chan struct{}, 1),
				start:    time.Now(),
				h:        sha256.New(),
				adoptSeq: map[string]int{},
				hot:      map[string]int{},
				sitesHit: map[string]int{},
				hints:    map[uint64]string{},
				gen:      genCounter.Add(1),
				reserved: map[string]int{},
			}
			s.rootGoid = goid()
			if cfg.Strategy == StratPCT {
				s.pctPoints = map[int]bool{}
				for i := 0; i < cfg.PCTDepth; i++ {
					// change points are part of the run's choices
					s.pctPoints[1+s.tape.Draw(2000)] = true
				}
			}
			cur.Store(s)
			mt := s.newTask(nil, "main")
			go func() {
				s.enter(mt)
				defer s.exitTask(mt, true)
				s.parkEligible(mt, "start:main")
				main()
			}()
			s.loop()
			s.teardownAll()
			s.dead.Store(true)
			cur.CompareAndSwap(s, nil)
		})
	}()
	if s == nil {
		res.Stop = "bubble-failed"
		return
	}
	cur.CompareAndSwap(s, nil)
	s.mu.Lock()
	defer s.mu.Unlock()
	res.Stop = s.stop
	res.Steps = s.steps
	res.SimTime = s.lastTime
	res.Panics = s.panics
	res.EventHash = hex.EncodeToString(s.h.Sum(nil))
	res.Events = s.events
	res.MaxSameTime = s.maxSame
	res.Livelock = s.livelock
	if s.livelock {
		res.HotSites = s.hot
	}
	res.Decisions = s.decisions
	res.Deviations = s.devs
	res.Tasks = len(s.all)
	res.SitesHit = s.sitesHit
	return
}

func (s *Sched) newTask(parent *Task, site string) *Task {
	s.mu.Lock()
	defer s.mu.Unlock()
	t := &Task{SpawnSite: site, wake: make(chan struct{}, 1), state: tsRunning}
	if parent == nil {
		t.ID = "0"
	} else {
		t.ID = parent.ID + "." + strconv.Itoa(parent.nchild)
		parent.nchild++
	}
	s.assignPrio(t)
	s.all = append(s.all, t)
	return t
}

func (s *Sched) assignPrio(t *Task) {
	if s.cfg.Strategy == StratPCT {
		t.prio = 1000 + s.tape.Draw(1000)
	}
}

func (s *Sched) enter(t *Task) {
	g := goid()
	s.mu.Lock()
	t.goid = g
	s.byGoid[g] = t
	s.mu.Unlock()
}

// self returns the task of the calling goroutine, adopting an unknown goroutine.
func (s *Sched) self(hint string) *Task {
	g := goid()
	if g == s.rootGoid {
		return nil
	}
	s.mu.Lock()
	t := s.byGoid[g]
	if t == nil {
		if hint == "" {
			hint = s.hints[g]
		}
		if hint == "" {
			hint = "anon"
		}
		n := s.adoptSeq[hint]
		s.adoptSeq[hint] = n + 1
		t = &Task{ID: "~" + hint + "#" + strconv.Itoa(n), SpawnSite: "adopted:" + hint, wake: make(chan struct{}, 1), state: tsRunning, adopted: true, goid: g}
		if pr, ok := s.reserved[hint]; ok {
			// the priority was drawn when the adoption was announced, by a task the scheduler
			// had under control: goroutines adopted at one instant may arrive in any order
			t.prio = pr
			delete(s.reserved, hint)
		} else {
			s.assignPrio(t)
		}
		s.byGoid[g] = t
		s.all = append(s.all, t)
	}
	s.mu.Unlock()
	return t
}

func (s *Sched) kick() {
	select {
	case s.wakeCh <- struct{}{}:
	default:
	}
}

// parkEligible parks the calling task until the scheduler releases it.
// teardownYieldCap bounds the scheduling points one task may pass while the run is torn down.
const teardownYieldCap = 50000

func (s *Sched) parkEligible(t *Task, site string) {
	s.mu.Lock()
	if s.teardown {
		// Code that is unwinding (deferred functions of a poisoned task) passes its scheduling
		// points freely. A task that keeps passing them is not unwinding but spinning - a busy
		// loop of the system under test that nothing will ever stop - and is ended here, or the
		// bubble would never be left.
		t.tdYields++
		spin := t.tdYields > teardownYieldCap
		s.mu.Unlock()
		if spin {
			runtime.Goexit()
		}
		return
	}
	t.state = tsEligible
	t.site = site
	s.mu.Unlock()
	s.kick()
	<-t.wake
	s.afterWake()
}

func (s *Sched) afterWake() {
	s.mu.Lock()
	td := s.teardown
	s.mu.Unlock()
	if td {
		runtime.Goexit()
	}
}

func (s *Sched) exitTask(t *Task, isMain bool) {
	if r := recover(); r != nil {
		s.mu.Lock()
		s.panics = append(s.panics, PanicRec{Task: t.ID, Site: t.SpawnSite, Value: fmt.Sprint(r), Stack: string(debug.Stack())})
		if s.stop == "" {
			s.stop = "panic"
		}
		s.mu.Unlock()
	}
	s.mu.Lock()
	t.state = tsDone
	delete(s.byGoid, t.goid)
	if isMain {
		s.mainDone = true
	}
	s.mu.Unlock()
	s.kick()
}

// Yield is a scheduling point: the caller parks until the scheduler picks it.
func Yield(site string) {
	s := cur.Load()
	if s == nil {
		return
	}
	if s.dead.Load() {
		return
	}
	t := s.self("")
	if t == nil {
		return
	}
	s.parkEligible(t, site)
}

// Woke is the scheduling point placed right after a blocking operation returned.
func Woke(site string) { Yield(site) }

// Hint names the goroutine that is about to call into the simulator for the first time, so
// that adopted library goroutines get deterministic ids.
func Hint(hint string) {
	s := cur.Load()
	if s == nil || s.dead.Load() {
		return
	}
	g := goid()
	s.mu.Lock()
	if _, ok := s.byGoid[g]; !ok {
		s.hints[g] = hint
	}
	s.mu.Unlock()
}

// YieldHint is Yield for code that may run on a library goroutine: hint names it on adoption.
func YieldHint(site, hint string) {
	s := cur.Load()
	if s == nil || s.dead.Load() {
		return
	}
	t := s.self(hint)
	if t == nil {
		return
	}
	s.parkEligible(t, site)
}

// Serialize is called by simulator operations that change shared state without blocking
// (closing a connection). A goroutine the scheduler has never seen - a library helper such as
// crypto/tls's handshake interrupter, woken natively and running beside the current task - is
// adopted and parked first, so that its effect lands at a scheduling decision instead of racing
// with the running task. Known tasks are never parked here: libraries close connections with
// their own mutexes held.
func Serialize(site, hint string) {
	s := cur.Load()
	if s == nil || s.dead.Load() {
		return
	}
	g := goid()
	if g == s.rootGoid {
		return
	}
	s.mu.Lock()
	_, known := s.byGoid[g]
	td := s.teardown
	s.mu.Unlock()
	if known || td {
		return
	}
	YieldHint(site, hint)
}

// SetTag labels the calling task.
func SetTag(tag string) {
	s := cur.Load()
	if s == nil {
		return
	}
	if t := s.self(""); t != nil {
		s.mu.Lock()
		t.Tag = tag
		s.mu.Unlock()
	}
}

// Go starts fn as a new task.
func Go(site string, fn func()) {
	s := cur.Load()
	if s == nil {
		go fn()
		return
	}
	if s.dead.Load() {
		go quiet(fn)
		return
	}
	parent := s.self("")
	s.mu.Lock()
	td := s.teardown
	s.mu.Unlock()
	if td {
		// the run is over: whatever leftover code does now is not an observation
		go quiet(fn)
		return
	}
	var child *Task
	if parent == nil {
		// spawned from the scheduler goroutine (harness set-up)
		s.mu.Lock()
		n := s.adoptSeq["root"]
		s.adoptSeq["root"] = n + 1
		s.mu.Unlock()
		child = s.newTask(&Task{ID: "r" + strconv.Itoa(n)}, site)
	} else {
		child = s.newTask(parent, site)
	}
	go func() {
		s.enter(child)
		defer s.exitTask(child, false)
		s.parkEligible(child, "start:"+site)
		fn()
	}()
}

func quiet(fn func()) {
	defer func() { recover() }()
	fn()
}

// WrapErrFunc prepares f to run as a task on a goroutine that a library (errgroup) starts.
func WrapErrFunc(site string, f func() error) func() error {
	s := cur.Load()
	if s == nil || s.dead.Load() {
		return f
	}
	parent := s.self("")
	if parent == nil {
		return f
	}
	child := s.newTask(parent, site)
	return func() (err error) {
		s.enter(child)
		defer s.exitTask(child, false)
		s.parkEligible(child, "start:"+site)
		return f()
	}
}

func (s *Sched) eligible() []*Task {
	var el []*Task
	for _, t := range s.all {
		if t.state == tsEligible {
			el = append(el, t)
		}
	}
	sort.Slice(el, func(i, j int) bool { return el[i].ID < el[j].ID })
	// candidate 0 is the task that ran last, if it can continue
	for i, t := range el {
		if t == s.current && i != 0 {
			copy(el[1:i+1], el[0:i])
			el[0] = t
			break
		}
	}
	// ... unless a context deadline is due: its expiry goes first by default, as it would with the
	// runtime's own timer goroutine (code that polls ctx.Err() in a loop would otherwise spin under
	// the strategies that keep the current task running); any other order is a deviation the
	// tape can choose
	k := 0
	for i, t := range el {
		if strings.HasPrefix(t.ID, "~ctx") {
			if i != k {
				copy(el[k+1:i+1], el[k:i])
				el[k] = t
			}
			k++
		}
	}
	return el
}

func (s *Sched) loop() {
	capTimer := time.NewTimer(s.cfg.MaxSimTime)
	defer capTimer.Stop()
	for {
		synctest.Wait()
		s.mu.Lock()
		if s.stop != "" {
			s.mu.Unlock()
			return
		}
		if s.mainDone {
			s.stop = "main-done"
			s.mu.Unlock()
			return
		}
		el := s.eligible()
		if len(el) == 0 {
			s.mu.Unlock()
			select {
			case <-s.wakeCh:
			case <-capTimer.C:
				s.mu.Lock()
				s.stop = "simtime-cap"
				s.lastTime = time.Since(s.start)
				s.mu.Unlock()
				return
			}
			continue
		}
		if s.steps >= s.cfg.MaxSteps {
			s.stop = "step-cap"
			s.mu.Unlock()
			return
		}
		now := time.Since(s.start)
		if now != s.lastTime {
			s.lastTime = now
			s.sameTime = 0
			if !s.livelock {
				s.hot = map[string]int{}
			}
		}
		s.sameTime++
		if s.sameTime > s.maxSame {
			s.maxSame = s.sameTime
		}
		idx := 0
		if len(el) > 1 {
			idx = s.choose(el)
			s.decisions++
			if idx != 0 {
				s.devs++
			}
		}
		t := el[idx]
		s.steps++
		if !s.livelock {
			s.hot[t.site]++
		}
		if s.sameTime >= s.cfg.LivelockMin {
			s.livelock = true
		}
		s.sitesHit[t.site]++
		s.logEvent(now, t, idx, len(el))
		t.state = tsRunning
		s.current = t
		hook := s.cfg.AfterStep
		s.mu.Unlock()
		t.wake <- struct{}{}
		if hook != nil {
			synctest.Wait()
			s.inspectRun(hook)
		}
	}
}

func (s *Sched) logEvent(now time.Duration, t *Task, idx, n int) {
	line := strconv.Itoa(s.steps) + " " + strconv.FormatInt(int64(now), 10) + " " + t.ID + " " + t.site + " " + strconv.Itoa(idx) + "/" + strconv.Itoa(n)
	s.h.Write([]byte(line))
	s.h.Write([]byte{'\n'})
	if s.cfg.KeepLog || len(s.events) < 60 {
		s.events = append(s.events, line)
	}
}

// Note appends an observation to the event log (and its hash) of the running simulation.
func Note(format string, args ...interface{}) {
	s := cur.Load()
	if s == nil || s.dead.Load() {
		return
	}
	line := "# " + fmt.Sprintf(format, args...)
	s.mu.Lock()
	s.h.Write([]byte(line))
	s.h.Write([]byte{'\n'})
	if s.cfg.KeepLog || len(s.events) < 60 {
		s.events = append(s.events, line)
	}
	s.mu.Unlock()
}

func (s *Sched) choose(el []*Task) int {
	n := len(el)
	switch s.cfg.Strategy {
	case StratSeq:
		return s.tape.DrawWith(n, func(r *rand.Rand) int { return 0 })
	case StratSticky:
		if el[0] == s.current {
			return s.tape.DrawWith(n, func(r *rand.Rand) int {
				if r.IntN(100) < s.cfg.StickyPct {
					return 0
				}
				return 1 + r.IntN(n-1)
			})
		}
		return s.tape.Draw(n)
	case StratPCT:
		if s.pctPoints[s.steps] && s.current != nil {
			s.pctLow--
			s.current.prio = s.pctLow
		}
		best := 0
		for i, t := range el {
			if t.prio > el[best].prio || (t.prio == el[best].prio && t.ID < el[best].ID) {
				best = i
			}
		}
		return s.tape.DrawWith(n, func(r *rand.Rand) int { return best })
	default:
		return s.tape.Draw(n)
	}
}

// teardownAll poisons every parked task, one at a time, so that deferred functions run
// sequentially and the bubble can be left.
func (s *Sched) teardownAll() {
	s.mu.Lock()
	s.teardown = true
	if s.lastTime == 0 {
		s.lastTime = time.Since(s.start)
	}
	hook := s.cfg.OnTeardown
	s.mu.Unlock()
	if hook != nil {
		func() {
			defer func() { recover() }()
			hook()
		}()
	}
	for round := 0; round < 10000; round++ {
		synctest.Wait()
		s.mu.Lock()
		var next *Task
		for _, t := range s.all {
			if t.state == tsEligible || t.state == tsBlocked {
				if next == nil || t.ID < next.ID {
					next = t
				}
			}
		}
		if next == nil {
			s.mu.Unlock()
			return
		}
		next.state = tsRunning
		s.mu.Unlock()
		next.wake <- struct{}{}
	}
}

// Census lists the tasks that are not finished. It must be called from a task (the harness
// main) and excludes the caller.
func Census() []TaskInfo {
	s := cur.Load()
	if s == nil {
		return nil
	}
	me := s.self("")
	s.mu.Lock()
	defer s.mu.Unlock()
	var out []TaskInfo
	for _, t := range s.all {
		if t.state == tsDone || t == me {
			continue
		}
		st := "native"
		switch t.state {
		case tsEligible:
			st = "eligible"
		case tsBlocked:
			st = "blocked"
		}
		out = append(out, TaskInfo{ID: t.ID, SpawnSite: t.SpawnSite, State: st, Site: t.site, Adopted: t.adopted})
	}
	return out
}

// Self returns the id of the calling task ("" outside a simulation).
func Self() string {
	s := cur.Load()
	if s == nil {
		return ""
	}
	if t := s.self(""); t != nil {
		return t.ID
	}
	return "root"
}

// IsDescendant reports whether task id is anc or was spawned (transitively) by anc.
func IsDescendant(id, anc string) bool {
	return id == anc || strings.HasPrefix(id, anc+".")
}

// ---- waiting on simulator-level conditions ----

// Waiter lets a task wait for an event raised by another task or by a timer callback.
type Waiter struct {
	s     *Sched
	t     *Task
	fired bool
}

// NewWaiter creates a waiter for the calling task.
func NewWaiter() *Waiter {
	s := cur.Load()
	if s == nil || s.dead.Load() {
		return &Waiter{fired: true}
	}
	return &Waiter{s: s, t: s.self("")}
}

// Wait parks the task until Fire has been called. After it returns the task has been
// chosen by the scheduler again.
func (w *Waiter) Wait(site string) {
	s := w.s
	if s == nil || w.t == nil {
		return
	}
	s.mu.Lock()
	if s.teardown {
		// (like a scheduling point passed after the run is over, see parkEligible: a task that keeps
		// waiting for things that will not happen anymore - a loop around a wait - is spinning)
		w.t.tdYields++
		spin := w.t.tdYields > teardownYieldCap
		s.mu.Unlock()
		if spin {
			runtime.Goexit()
		}
		return
	}
	t := w.t
	t.site = site
	if w.fired {
		t.state = tsEligible
	} else {
		t.state = tsBlocked
		t.waiter = w
	}
	s.mu.Unlock()
	s.kick()
	<-t.wake
	s.afterWake()
}

// Fire makes the waiting task eligible. It may be called from any goroutine.
func (w *Waiter) Fire() {
	s := w.s
	if s == nil || w.t == nil {
		return
	}
	s.mu.Lock()
	w.fired = true
	if w.t.state == tsBlocked && w.t.waiter == w {
		w.t.state = tsEligible
		w.t.waiter = nil
	}
	s.mu.Unlock()
	s.kick()
}

// ---- inspection from the scheduler goroutine ----

type inspectBusy struct{}

func (s *Sched) inspectRun(f func()) {
	s.mu.Lock()
	s.inspect = true
	s.mu.Unlock()
	defer func() {
		s.mu.Lock()
		s.inspect = false
		s.mu.Unlock()
		if r := recover(); r != nil {
			if _, ok := r.(inspectBusy); !ok {
				panic(r)
			}
		}
	}()
	f()
}

func onRoot(s *Sched) bool { return goid() == s.rootGoid }

// Inspect runs f on the scheduler goroutine (from an AfterStep hook); if f needs a simulator
// lock that a parked task holds, f is abandoned for this step.
func Inspect(f func()) {
	defer func() {
		if r := recover(); r != nil {
			if _, ok := r.(inspectBusy); !ok {
				panic(r)
			}
		}
	}()
	f()
}
