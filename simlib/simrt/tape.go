package simrt

import (
	"math/rand/v2"
)

// Tape is the single source of every choice in a run. In search mode the values come from a
// PCG stream seeded by the caller and are recorded; in replay mode the recorded values are
// handed out again (value mod n, and 0 once the tape is exhausted). Every draw site is
// designed so that 0 is the simplest choice.
type Tape struct {
	Rec    []uint32
	pos    int
	replay bool
	rng    *rand.Rand
	Draws  int
}

// NewSearchTape returns a recording tape driven by a PCG stream.
func NewSearchTape(seed1, seed2 uint64) *Tape {
	return &Tape{rng: rand.New(rand.NewPCG(seed1, seed2))}
}

// NewReplayTape returns a tape that hands out rec.
func NewReplayTape(rec []uint32) *Tape {
	return &Tape{Rec: rec, replay: true}
}

// Replaying reports whether the tape is in replay mode.
func (t *Tape) Replaying() bool { return t.replay }

// Pos returns how many values were consumed.
func (t *Tape) Pos() int { return t.pos }

// Draw returns a value in [0,n). n<=1 returns 0 without consuming the tape.
func (t *Tape) Draw(n int) int {
	if n <= 1 {
		return 0
	}
	return t.DrawWith(n, nil)
}

// DrawWith is Draw with a custom search-mode distribution: pick must return a value in [0,n).
func (t *Tape) DrawWith(n int, pick func(r *rand.Rand) int) int {
	if n <= 1 {
		return 0
	}
	t.Draws++
	if t.replay {
		v := 0
		if t.pos < len(t.Rec) {
			v = int(t.Rec[t.pos] % uint32(n))
		}
		t.pos++
		return v
	}
	var v int
	if pick != nil {
		v = pick(t.rng)
		if v < 0 || v >= n {
			v = 0
		}
	} else {
		v = t.rng.IntN(n)
	}
	t.Rec = append(t.Rec, uint32(v))
	t.pos++
	return v
}

// Bool draws a boolean that is true with probability num/den in search mode; false is the
// simple choice.
func (t *Tape) Bool(num, den int) bool {
	return t.DrawWith(2, func(r *rand.Rand) int {
		if r.IntN(den) < num {
			return 1
		}
		return 0
	}) == 1
}

// Range draws an integer in [lo,hi].
func (t *Tape) Range(lo, hi int) int {
	if hi <= lo {
		return lo
	}
	return lo + t.Draw(hi-lo+1)
}

// Biased draws in [0,n) preferring 0 with probability num/den.
func (t *Tape) Biased(n, num, den int) int {
	return t.DrawWith(n, func(r *rand.Rand) int {
		if r.IntN(den) < num {
			return 0
		}
		return r.IntN(n)
	})
}

// Rng exposes the search-mode generator for payload bytes that never influence control
// flow (nil in replay mode).
func (t *Tape) Rng() *rand.Rand { return t.rng }
