package simrt

import (
	"context"
	"strconv"
	"sync"
	"time"
)

// WithTimeout and WithDeadline replace context.WithTimeout / context.WithDeadline in
// instrumented code. The stdlib versions cancel from a runtime timer goroutine that runs freely
// the instant the deadline is reached, so that whenever a deadline and another wake-up (data
// arriving, a socket deadline armed for the same instant) fall on one simulated instant the
// cancellation always comes first. Here the expiry is a task of its own: it becomes eligible at
// the deadline and the scheduler decides, like for any other task, whether it runs before or
// after whatever else became runnable at that instant.

type deadlineCtx struct {
	context.Context // the parent, for Value
	deadline        time.Time
	done            chan struct{}
	mu              sync.Mutex
	err             error
	timer           *time.Timer
	stopParent      func() bool
}

func (c *deadlineCtx) Deadline() (time.Time, bool) {
	if pd, ok := c.Context.Deadline(); ok && pd.Before(c.deadline) {
		return pd, true
	}
	return c.deadline, true
}

func (c *deadlineCtx) Done() <-chan struct{} { return c.done }

func (c *deadlineCtx) Err() error {
	c.mu.Lock()
	defer c.mu.Unlock()
	return c.err
}

func (c *deadlineCtx) cancel(err error) {
	c.mu.Lock()
	if c.err != nil {
		c.mu.Unlock()
		return
	}
	c.err = err
	close(c.done)
	t, sp := c.timer, c.stopParent
	c.mu.Unlock()
	if t != nil {
		t.Stop()
	}
	if sp != nil {
		sp()
	}
}

// WithDeadline mirrors context.WithDeadline.
func WithDeadline(parent context.Context, d time.Time) (context.Context, context.CancelFunc) {
	s := active()
	if s == nil || onRoot(s) {
		return context.WithDeadline(parent, d)
	}
	if s.tornDown() {
		return context.WithDeadline(parent, d)
	}
	c := &deadlineCtx{Context: parent, deadline: d, done: make(chan struct{})}
	if parent.Done() != nil {
		c.stopParent = context.AfterFunc(parent, func() { c.cancel(context.Cause(parent)) })
	}
	dur := time.Until(d)
	if dur <= 0 {
		c.cancel(context.DeadlineExceeded)
		return c, func() { c.cancel(context.Canceled) }
	}
	// the expiry task is announced now, by a task the scheduler controls: its name and (under
	// PCT) its priority are fixed here, not when the runtime timer goroutine shows up
	s.mu.Lock()
	s.ctxSeq++
	hint := "ctx" + strconv.Itoa(s.ctxSeq)
	if s.cfg.Strategy == StratPCT {
		// always ahead of everything else: under strict priorities a polling loop would starve it
		s.reserved[hint] = 1 << 30
	}
	s.mu.Unlock()
	c.mu.Lock()
	c.timer = time.AfterFunc(dur, func() {
		if c.Err() != nil {
			return
		}
		YieldHint("ctx.deadline", hint)
		c.cancel(context.DeadlineExceeded)
	})
	c.mu.Unlock()
	return c, func() { c.cancel(context.Canceled) }
}

// WithTimeout mirrors context.WithTimeout.
func WithTimeout(parent context.Context, d time.Duration) (context.Context, context.CancelFunc) {
	return WithDeadline(parent, time.Now().Add(d))
}
