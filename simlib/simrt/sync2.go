package simrt

import (
	"sync"
)

// The types below replace sync.WaitGroup, sync.Cond, sync.Pool and sync.Map inside the
// instrumented package, so that a change to the code under test that starts using them still
// builds and stays replayable. Without a running simulation they fall back to the real ones.

// WaitGroup is a drop-in for sync.WaitGroup.
type WaitGroup struct {
	real    sync.WaitGroup
	mu      sync.Mutex
	n       int
	waiters []*Waiter
}

func (g *WaitGroup) Add(delta int) {
	s := active()
	if s == nil {
		g.real.Add(delta)
		return
	}
	g.mu.Lock()
	g.n += delta
	if g.n < 0 {
		g.mu.Unlock()
		panic("sync: negative WaitGroup counter")
	}
	var ws []*Waiter
	if g.n == 0 {
		ws = g.waiters
		g.waiters = nil
	}
	g.mu.Unlock()
	for _, w := range ws {
		w.Fire()
	}
}

func (g *WaitGroup) Done() { g.Add(-1) }

func (g *WaitGroup) Wait() {
	s := active()
	if s == nil {
		g.real.Wait()
		return
	}
	if onRoot(s) {
		return
	}
	Yield("waitgroup.wait")
	for {
		g.mu.Lock()
		if g.n == 0 || s.tornDown() {
			g.mu.Unlock()
			return
		}
		w := NewWaiter()
		g.waiters = append(g.waiters, w)
		g.mu.Unlock()
		w.Wait("waitgroup.blocked")
	}
}

// Go mirrors sync.WaitGroup.Go (Go 1.25).
func (g *WaitGroup) Go(f func()) {
	g.Add(1)
	Go("waitgroup.go", func() {
		defer g.Done()
		f()
	})
}

// Cond is a drop-in for sync.Cond; create it with NewCond.
type Cond struct {
	L       sync.Locker
	real    *sync.Cond
	mu      sync.Mutex
	waiters []*Waiter
}

// NewCond replaces sync.NewCond.
func NewCond(l sync.Locker) *Cond {
	return &Cond{L: l, real: sync.NewCond(l)}
}

func (c *Cond) Wait() {
	s := active()
	if s == nil {
		c.real.Wait()
		return
	}
	w := NewWaiter()
	c.mu.Lock()
	c.waiters = append(c.waiters, w)
	c.mu.Unlock()
	c.L.Unlock()
	w.Wait("cond.wait")
	c.L.Lock()
}

func (c *Cond) Signal() {
	s := active()
	if s == nil {
		c.real.Signal()
		return
	}
	c.mu.Lock()
	var w *Waiter
	if len(c.waiters) > 0 {
		w = c.waiters[0]
		c.waiters = c.waiters[1:]
	}
	c.mu.Unlock()
	if w != nil {
		w.Fire()
	}
}

func (c *Cond) Broadcast() {
	s := active()
	if s == nil {
		c.real.Broadcast()
		return
	}
	c.mu.Lock()
	ws := c.waiters
	c.waiters = nil
	c.mu.Unlock()
	for _, w := range ws {
		w.Fire()
	}
}

// Pool is a drop-in for sync.Pool. Inside a simulation it is a plain LIFO free list that is
// emptied when a new run starts: the real pool's per-P caches and GC-driven eviction would make
// runs depend on each other and on the machine. Always handing back the most recently returned
// object also maximises reuse, which is what exposes state leaking through pooled objects.
type Pool struct {
	New  func() any
	real sync.Pool
	once sync.Once
	mu   sync.Mutex
	gen  uint64
	free []any
}

func (p *Pool) Get() any {
	s := active()
	if s == nil {
		p.once.Do(func() { p.real.New = p.New })
		return p.real.Get()
	}
	p.mu.Lock()
	if g := s.generation(); g != p.gen {
		p.gen = g
		p.free = nil
	}
	var x any
	if n := len(p.free); n > 0 {
		x = p.free[n-1]
		p.free = p.free[:n-1]
	}
	p.mu.Unlock()
	if x == nil && p.New != nil {
		x = p.New()
	}
	return x
}

func (p *Pool) Put(x any) {
	s := active()
	if s == nil {
		p.real.Put(x)
		return
	}
	if x == nil {
		return
	}
	p.mu.Lock()
	if g := s.generation(); g != p.gen {
		p.gen = g
		p.free = nil
	}
	p.free = append(p.free, x)
	p.mu.Unlock()
}

// Map is a drop-in for sync.Map with a deterministic Range order (insertion order).
type Map struct {
	mu   sync.Mutex
	keys []any
	m    map[any]any
}

func (m *Map) Load(key any) (any, bool) {
	m.mu.Lock()
	defer m.mu.Unlock()
	v, ok := m.m[key]
	return v, ok
}

func (m *Map) Store(key, value any) {
	m.mu.Lock()
	defer m.mu.Unlock()
	m.storeLocked(key, value)
}

func (m *Map) storeLocked(key, value any) {
	if m.m == nil {
		m.m = map[any]any{}
	}
	if _, ok := m.m[key]; !ok {
		m.keys = append(m.keys, key)
	}
	m.m[key] = value
}

func (m *Map) deleteLocked(key any) {
	if _, ok := m.m[key]; !ok {
		return
	}
	delete(m.m, key)
	for i, k := range m.keys {
		if k == key {
			m.keys = append(m.keys[:i:i], m.keys[i+1:]...)
			break
		}
	}
}

func (m *Map) LoadOrStore(key, value any) (any, bool) {
	m.mu.Lock()
	defer m.mu.Unlock()
	if v, ok := m.m[key]; ok {
		return v, true
	}
	m.storeLocked(key, value)
	return value, false
}

func (m *Map) LoadAndDelete(key any) (any, bool) {
	m.mu.Lock()
	defer m.mu.Unlock()
	v, ok := m.m[key]
	m.deleteLocked(key)
	return v, ok
}

func (m *Map) Delete(key any) {
	m.mu.Lock()
	defer m.mu.Unlock()
	m.deleteLocked(key)
}

func (m *Map) Swap(key, value any) (any, bool) {
	m.mu.Lock()
	defer m.mu.Unlock()
	v, ok := m.m[key]
	m.storeLocked(key, value)
	return v, ok
}

func (m *Map) CompareAndSwap(key, old, new any) bool {
	m.mu.Lock()
	defer m.mu.Unlock()
	if v, ok := m.m[key]; ok && v == old {
		m.m[key] = new
		return true
	}
	return false
}

func (m *Map) CompareAndDelete(key, old any) bool {
	m.mu.Lock()
	defer m.mu.Unlock()
	if v, ok := m.m[key]; ok && v == old {
		m.deleteLocked(key)
		return true
	}
	return false
}

func (m *Map) Range(f func(key, value any) bool) {
	m.mu.Lock()
	keys := append([]any(nil), m.keys...)
	m.mu.Unlock()
	for _, k := range keys {
		m.mu.Lock()
		v, ok := m.m[k]
		m.mu.Unlock()
		if !ok {
			continue
		}
		if !f(k, v) {
			return
		}
	}
}

func (m *Map) Clear() {
	m.mu.Lock()
	defer m.mu.Unlock()
	m.m = nil
	m.keys = nil
}
